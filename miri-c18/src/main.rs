use cadence_macros::SingletonHolder;
use std::sync::Arc;
use std::thread;

struct Payload {
    id: u32,
    pattern: [u64; 6],
}

impl Payload {
    fn new(id: u32) -> Payload {
        let mut p = [0u64; 6];
        for (i, v) in p.iter_mut().enumerate() {
            *v = (id as u64 + 1).wrapping_mul(0x9E37_79B9_7F4A_7C15).rotate_left(i as u32 * 7);
        }
        Payload { id, pattern: p }
    }
    fn intact(&self) -> bool {
        Payload::new(self.id).pattern == self.pattern
    }
}

fn main() {
    // scenario: two racing setters and two readers overlapping the initialisation window
    let holder: Arc<SingletonHolder<Payload>> = Arc::new(SingletonHolder::new());
    let mut hs = Vec::new();
    for id in 0..2u32 {
        let h = holder.clone();
        hs.push(thread::spawn(move || {
            h.set(Payload::new(id));
            h.get().map(|a| (a.id, a.intact()))
        }));
    }
    for _ in 0..2 {
        let h = holder.clone();
        hs.push(thread::spawn(move || {
            let mut last = None;
            for _ in 0..3 {
                if h.is_set() {
                    let a = h.get().expect("is_set but get returned None");
                    assert!(a.intact(), "torn value");
                    if let Some(prev) = last {
                        assert_eq!(prev, a.id, "two winners");
                    }
                    last = Some(a.id);
                } else {
                    assert!(last.is_none(), "unset after set was observed");
                }
                thread::yield_now();
            }
            last.map(|i| (i, true))
        }));
    }
    let mut ids = Vec::new();
    for h in hs {
        if let Some((id, intact)) = h.join().unwrap() {
            assert!(intact);
            ids.push(id);
        }
    }
    let fin = holder.get().expect("set completed but final get is None");
    assert!(ids.iter().all(|i| *i == fin.id), "two winners: {ids:?} vs {}", fin.id);
}
