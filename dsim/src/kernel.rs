//! The simulation kernel: every simulated task is a real OS thread, but exactly one of them
//! runs between two yield points. Which one is decided by a seeded scheduler (or a recorded
//! schedule), so an execution is a pure function of (program, fault plan, choice sequence).
//!
//! Blocking is owned by the kernel: a task that must wait is marked blocked on a resource id and
//! the baton goes elsewhere. When nothing is runnable the run is *quiescent*; the driver then
//! takes its snapshot and tears the run down (abort flag; every task unwinds at its next shim
//! operation with a private payload).

use crate::hb::HbTracker;
use crate::rng::{Fnv, Rng};
use std::any::Any;
use std::cell::RefCell;
use std::panic::{self, AssertUnwindSafe};
use std::sync::{Arc, Condvar, Mutex, MutexGuard};
use std::time::Duration;

pub type TaskId = usize;

/// Resource id 1 is reserved: "wake me when every other task is blocked or finished".
pub const IDLE_RES: u64 = 1;
const FIRST_DYNAMIC_RES: u64 = 16;

/// Private unwind payload used for tearing a run down.
pub struct AbortToken;

pub fn is_abort(p: &(dyn Any + Send)) -> bool {
    p.is::<AbortToken>()
}

#[derive(Clone, Debug, PartialEq, Eq)]
pub enum TState {
    Runnable,
    Blocked { res: u64, deadline: Option<u64> },
    Finished,
}

#[derive(Clone, Debug, PartialEq, Eq)]
pub enum Wake {
    Notified,
    TimedOut,
    /// the run is being torn down and this task is already unwinding
    Aborted,
}

#[derive(Clone, Debug)]
pub enum Strategy {
    Uniform,
    /// PCT (Burckhardt et al.): random priorities, `depth-1` priority change points in `0..horizon`.
    Pct { depth: u32, horizon: u64 },
    /// keep the running task for a geometric number of steps (mean `mean`)
    Bursty { mean: u32 },
    /// never pick an anonymous task (one spawned by the code under test, i.e. the queue worker)
    /// while a named (harness) task is runnable
    StarveAnon,
    /// never pick a named task other than main while an anonymous one is runnable
    FavourAnon,
    /// follow a recorded choice sequence; fall back to "current, else lowest id"
    Replay(Vec<u32>),
}

impl Strategy {
    pub fn name(&self) -> &'static str {
        match self {
            Strategy::Uniform => "uniform",
            Strategy::Pct { .. } => "pct",
            Strategy::Bursty { .. } => "bursty",
            Strategy::StarveAnon => "starve_worker",
            Strategy::FavourAnon => "favour_worker",
            Strategy::Replay(_) => "replay",
        }
    }
}

#[derive(Clone, Debug)]
pub struct KConfig {
    pub seed: u64,
    pub strategy: Strategy,
    pub step_cap: u64,
    pub record_trace: bool,
    pub hb: bool,
    /// every simulated task gets a brand-new OS thread (no pooling): thread-local state of the
    /// code under test cannot leak in from earlier runs or from an earlier task of this run
    pub fresh_threads: bool,
    /// also make the point right AFTER the effect of every shim operation a scheduling point
    /// (otherwise `[effect of a shim op; everything unshimmed that follows: Arc decrements, drop
    /// glue, the task's exit; up to the next shim op]` is one atomic step). Decided per run from
    /// the seed (a third of the runs), so it is part of what a replay file reproduces.
    pub post_yield: bool,
}

impl KConfig {
    pub fn new(seed: u64, strategy: Strategy) -> KConfig {
        KConfig { seed, strategy, step_cap: 20_000, record_trace: false, hb: false, fresh_threads: clean_room(), post_yield: crate::rng::mix(&[seed, 0x9057_1E1D]) % 3 == 0 }
    }
}

thread_local! {
    static CLEAN_ROOM: std::cell::Cell<bool> = const { std::cell::Cell::new(false) };
}

/// Is the calling thread inside `in_clean_room`?
pub fn clean_room() -> bool {
    CLEAN_ROOM.with(|c| c.get())
}

/// Run `f` on a brand-new OS thread; every simulation started from it gives each simulated task a
/// brand-new OS thread as well. Used to confirm, minimise and replay violations: the exploration
/// batch pools its threads for speed, and a pooled thread carries whatever thread-local state the
/// code under test left on it in earlier runs.
pub fn in_clean_room<R: Send>(f: impl FnOnce() -> R + Send) -> R {
    std::thread::scope(|s| {
        let h = std::thread::Builder::new()
            .name("clean-room".into())
            .stack_size(8 * 1024 * 1024)
            .spawn_scoped(s, || {
                CLEAN_ROOM.with(|c| c.set(true));
                f()
            })
            .expect("spawn clean-room thread");
        match h.join() {
            Ok(r) => r,
            Err(p) => std::panic::resume_unwind(p),
        }
    })
}

#[derive(Clone, Debug)]
pub struct TaskInfo {
    pub id: TaskId,
    pub name: String,
    pub anon: bool,
    pub state: TState,
    pub label: String,
    /// panic message if the task's root function unwound (other than by teardown)
    pub panicked: Option<String>,
    pub ever_blocked: bool,
    /// how many times the task entered a blocked state (other than harness idle waits)
    pub blocks: u64,
    /// how many of those were waits for a (simulated) mutex held by another task
    pub lock_waits: u64,
    /// failed compare-exchange operations (a lock-free retry loop costs steps without waiting for anyone)
    pub cas_failures: u64,
    pub steps: u64,
    pub parent: Option<TaskId>,
}

/// One channel operation as seen by the channel shim (structured, for the oracles).
#[derive(Clone, Debug)]
pub struct ChanEvent {
    pub step: u64,
    pub task: TaskId,
    pub chan: u64,
    pub op: &'static str,
    pub ok: bool,
    pub len_after: usize,
    pub cap: Option<usize>,
    pub payload: String,
}

#[derive(Clone, Debug)]
pub struct TraceEvent {
    pub step: u64,
    pub task: TaskId,
    pub what: String,
}

struct TaskRec {
    info: TaskInfo,
    cv: Arc<Condvar>,
    timed_out: bool,
    prio: u64,
}

struct Sched {
    strategy: Strategy,
    rng: Rng,
    pct_points: Vec<u64>,
    pct_next_low: u64,
    replay_pos: usize,
    replay_diverged: bool,
}

pub struct KState {
    tasks: Vec<TaskRec>,
    current: Option<TaskId>,
    sched: Sched,
    record: Vec<u32>,
    steps: u64,
    contested: u64,
    now: u64,
    aborting: bool,
    done: bool,
    next_res: u64,
    hash: Fnv,
    trace: Vec<TraceEvent>,
    record_trace: bool,
    step_cap: u64,
    live_os: usize,
    error: Option<String>,
    pub hb: Option<HbTracker>,
    chan_log: Vec<ChanEvent>,
    /// consecutive timer firings without the idle waiters having run (see dispatch)
    timer_streak: u32,
    coin_seed: u64,
}

/// Wall-clock patience of the watchdog and of teardown. Generous on purpose: on a machine that is
/// busy with other jobs a descheduled task thread can go without the CPU for a long time, and a
/// premature "stalled" would be a harness error on code that is fine.
const STALL_SECS: u64 = 120;

pub struct Kernel {
    m: Mutex<KState>,
    main_cv: Condvar,
    fresh_threads: bool,
    post_yield: bool,
}

type Job = Box<dyn FnOnce() + Send + 'static>;

/// Task threads are pooled: creating and destroying an OS thread per simulated task serialises
/// all worker threads of the batch driver on the process's address-space lock. A pooled thread is
/// indistinguishable from a fresh one for the code under test (thread-locals of the simulator are
/// reset per task). Thread-locals of the code under test would survive on a pooled thread:
/// violations are therefore confirmed, minimised and replayed with `fresh_threads` (see `in_clean_room`).
static POOL: Mutex<Vec<std::sync::mpsc::Sender<Job>>> = Mutex::new(Vec::new());

fn pool_run(job: Job) {
    let mut job = Some(job);
    loop {
        let tx = POOL.lock().unwrap_or_else(|p| p.into_inner()).pop();
        match tx {
            Some(tx) => match tx.send(job.take().unwrap()) {
                Ok(()) => return,
                Err(e) => job = Some(e.0),
            },
            None => break,
        }
    }
    let (tx, rx) = std::sync::mpsc::channel::<Job>();
    let first = job.take().unwrap();
    std::thread::Builder::new()
        .name("sim-task".into())
        .stack_size(512 * 1024)
        .spawn(move || {
            first();
            loop {
                POOL.lock().unwrap_or_else(|p| p.into_inner()).push(tx.clone());
                match rx.recv() {
                    Ok(j) => j(),
                    Err(_) => break,
                }
            }
        })
        .expect("spawn sim task thread");
}

fn fresh_run(job: Job) {
    std::thread::Builder::new().name("sim-task-fresh".into()).stack_size(512 * 1024).spawn(job).expect("spawn sim task thread");
}

thread_local! {
    static CURRENT: RefCell<Option<(Arc<Kernel>, TaskId)>> = const { RefCell::new(None) };
    static LAST_PANIC: RefCell<Option<String>> = const { RefCell::new(None) };
}

/// Install a process-wide panic hook that prints nothing and remembers the message + location
/// in a thread-local, so the kernel can attribute unexpected panics (C20) without noise.
pub fn install_quiet_panic_hook() {
    panic::set_hook(Box::new(|info| {
        let msg = if let Some(s) = info.payload().downcast_ref::<&str>() {
            (*s).to_string()
        } else if let Some(s) = info.payload().downcast_ref::<String>() {
            s.clone()
        } else if info.payload().is::<AbortToken>() {
            "<abort>".to_string()
        } else {
            "<non-string panic payload>".to_string()
        };
        let loc = info.location().map(|l| format!("{}:{}", l.file(), l.line())).unwrap_or_default();
        LAST_PANIC.with(|p| *p.borrow_mut() = Some(format!("{msg} @ {loc}")));
    }));
}

pub fn take_last_panic() -> Option<String> {
    LAST_PANIC.with(|p| p.borrow_mut().take())
}

pub fn payload_to_string(p: &(dyn Any + Send)) -> String {
    if let Some(s) = p.downcast_ref::<&str>() {
        (*s).to_string()
    } else if let Some(s) = p.downcast_ref::<String>() {
        s.clone()
    } else if p.is::<AbortToken>() {
        "<abort>".into()
    } else {
        "<non-string panic payload>".into()
    }
}

pub fn current() -> Option<(Arc<Kernel>, TaskId)> {
    CURRENT.with(|c| c.borrow().clone())
}

pub fn in_sim() -> bool {
    CURRENT.with(|c| c.borrow().is_some())
}

pub fn current_task() -> Option<TaskId> {
    CURRENT.with(|c| c.borrow().as_ref().map(|(_, t)| *t))
}

/// Result of one simulated run.
pub struct RunResult<R> {
    /// what the main task returned (None if it never finished or unwound)
    pub main: Option<R>,
    /// task table as it was when the run became quiescent (before teardown)
    pub tasks: Vec<TaskInfo>,
    pub schedule: Vec<u32>,
    pub steps: u64,
    pub contested: u64,
    pub now: u64,
    pub trace_hash: u64,
    pub trace: Vec<TraceEvent>,
    pub hb_violations: Vec<String>,
    pub hb_stats: crate::hb::HbStats,
    /// harness-level error (step cap exceeded, teardown timeout): never a verdict
    pub error: Option<String>,
    pub replay_diverged: bool,
}

impl Kernel {
    fn lock(&self) -> MutexGuard<'_, KState> {
        match self.m.lock() {
            Ok(g) => g,
            Err(p) => p.into_inner(),
        }
    }

    /// Run `main` as task 0 of a fresh kernel and drive the run to quiescence.
    pub fn run<R, F>(cfg: KConfig, main: F) -> RunResult<R>
    where
        R: Send + 'static,
        F: FnOnce() -> R + Send + 'static,
    {
        let rng = Rng::new(cfg.seed);
        let mut sched = Sched {
            strategy: cfg.strategy.clone(),
            rng,
            pct_points: Vec::new(),
            pct_next_low: 0,
            replay_pos: 0,
            replay_diverged: false,
        };
        if let Strategy::Pct { depth, horizon } = &cfg.strategy {
            let d = (*depth).max(1);
            for _ in 1..d {
                let p = sched.rng.below((*horizon).max(1));
                sched.pct_points.push(p);
            }
            sched.pct_points.sort_unstable();
            sched.pct_next_low = d as u64;
        }
        let k = Arc::new(Kernel {
            m: Mutex::new(KState {
                tasks: Vec::new(),
                current: None,
                sched,
                record: Vec::new(),
                steps: 0,
                contested: 0,
                now: 0,
                aborting: false,
                done: false,
                next_res: FIRST_DYNAMIC_RES,
                hash: Fnv::default(),
                trace: Vec::new(),
                record_trace: cfg.record_trace,
                step_cap: cfg.step_cap,
                live_os: 0,
                error: None,
                hb: if cfg.hb { Some(HbTracker::new()) } else { None },
                chan_log: Vec::new(),
                timer_streak: 0,
                coin_seed: cfg.seed,
            }),
            main_cv: Condvar::new(),
            fresh_threads: cfg.fresh_threads,
            post_yield: cfg.post_yield,
        });

        let slot: Arc<Mutex<Option<R>>> = Arc::new(Mutex::new(None));
        let slot2 = slot.clone();
        {
            let mut st = k.lock();
            let id = k.register_task(&mut st, "main".into(), false, None);
            st.current = Some(id);
            drop(st);
            k.start_os_thread(id, move || {
                let r = main();
                *slot2.lock().unwrap() = Some(r);
            });
        }

        // wait for quiescence; a watchdog turns "a task holds the baton for ever without reaching a
        // yield point" (a real blocking primitive the shims do not cover, an endless loop) into a
        // harness error instead of a hang
        let mut st = k.lock();
        let mut last_steps = st.steps;
        let mut last_progress = std::time::Instant::now();
        let mut stalled = false;
        while !st.done {
            st = match k.main_cv.wait_timeout(st, Duration::from_millis(500)) {
                Ok((g, _)) => g,
                Err(p) => p.into_inner().0,
            };
            if st.steps != last_steps {
                last_steps = st.steps;
                last_progress = std::time::Instant::now();
            } else if last_progress.elapsed() > Duration::from_secs(STALL_SECS) {
                stalled = true;
                st.error = Some(format!(
                    "run stalled for {} s of wall clock at step {} (task {:?} holds the baton without reaching a scheduling point: a blocking primitive outside the shims, or an endless loop)",
                    STALL_SECS, st.steps, st.current
                ));
                st.current = None;
                st.done = true;
            }
        }
        let _ = stalled;
        // snapshot
        let tasks: Vec<TaskInfo> = st.tasks.iter().map(|t| t.info.clone()).collect();
        let schedule = st.record.clone();
        let steps = st.steps;
        let contested = st.contested;
        let now = st.now;
        let trace_hash = st.hash.0;
        let trace = std::mem::take(&mut st.trace);
        let (hb_violations, hb_stats) = match st.hb.take() {
            Some(h) => (h.violations.clone(), h.stats.clone()),
            None => (Vec::new(), Default::default()),
        };
        let mut error = st.error.clone();
        let replay_diverged = st.sched.replay_diverged;
        // teardown
        st.aborting = true;
        for t in st.tasks.iter() {
            t.cv.notify_all();
        }
        let deadline = std::time::Instant::now() + Duration::from_secs(STALL_SECS);
        while st.live_os > 0 {
            let left = deadline.saturating_duration_since(std::time::Instant::now());
            if left.is_zero() {
                error = Some(format!("teardown timeout: {} task threads still alive", st.live_os));
                break;
            }
            st = match k.main_cv.wait_timeout(st, left) {
                Ok((g, _)) => g,
                Err(p) => p.into_inner().0,
            };
        }
        drop(st);
        let main = slot.lock().ok().and_then(|mut g| g.take());
        RunResult {
            main,
            tasks,
            schedule,
            steps,
            contested,
            now,
            trace_hash,
            trace,
            hb_violations,
            hb_stats,
            error,
            replay_diverged,
        }
    }

    fn register_task(&self, st: &mut KState, name: String, anon: bool, parent: Option<TaskId>) -> TaskId {
        let id = st.tasks.len();
        let prio = match &st.sched.strategy {
            Strategy::Pct { depth, .. } => (*depth as u64) + 1 + (st.sched.rng.next_u64() >> 16),
            _ => 0,
        };
        st.tasks.push(TaskRec {
            info: TaskInfo {
                id,
                name,
                anon,
                state: TState::Runnable,
                label: String::new(),
                panicked: None,
                ever_blocked: false,
                blocks: 0,
                lock_waits: 0,
                cas_failures: 0,
                steps: 0,
                parent,
            },
            cv: Arc::new(Condvar::new()),
            timed_out: false,
            prio,
        });
        if let Some(hb) = st.hb.as_mut() {
            hb.on_spawn(parent, id);
        }
        id
    }

    fn start_os_thread<F: FnOnce() + Send + 'static>(self: &Arc<Self>, id: TaskId, f: F) {
        let k = self.clone();
        {
            let mut st = self.lock();
            st.live_os += 1;
        }
        let fresh = self.fresh_threads;
        let run: fn(Job) = if fresh { fresh_run } else { pool_run };
        run(Box::new(move || {
            CURRENT.with(|c| *c.borrow_mut() = Some((k.clone(), id)));
            // wait for the baton
            let start = {
                let mut st = k.lock();
                loop {
                    if st.aborting {
                        break false;
                    }
                    if st.current == Some(id) {
                        break true;
                    }
                    let cv = st.tasks[id].cv.clone();
                    st = match cv.wait(st) {
                        Ok(g) => g,
                        Err(p) => p.into_inner(),
                    };
                }
            };
            let mut panicked = None;
            if start {
                let _ = take_last_panic();
                let r = panic::catch_unwind(AssertUnwindSafe(f));
                if let Err(p) = r {
                    if !is_abort(&*p) {
                        let msg = take_last_panic().unwrap_or_else(|| payload_to_string(&*p));
                        panicked = Some(msg);
                    }
                }
            } else {
                // never started: drop the closure (and what it captured) in teardown mode
                let _ = panic::catch_unwind(AssertUnwindSafe(move || drop(f)));
            }
            k.finish_task(id, panicked);
            CURRENT.with(|c| *c.borrow_mut() = None);
            let mut st = k.lock();
            st.live_os -= 1;
            k.main_cv.notify_all();
        }));
    }

    fn finish_task(self: &Arc<Self>, id: TaskId, panicked: Option<String>) {
        let mut st = self.lock();
        if st.aborting {
            return;
        }
        st.tasks[id].info.state = TState::Finished;
        st.tasks[id].info.panicked = panicked.clone();
        let h = if panicked.is_some() { 2 } else { 1 };
        Self::note(&mut st, id, || format!("task-exit{}", if h == 2 { " (panicked)" } else { "" }), &[0xE0, h]);
        if let Some(hb) = st.hb.as_mut() {
            hb.on_exit(id);
        }
        let jr = Self::join_res(id);
        Self::wake_locked(&mut st, jr);
        // hand the baton on without waiting
        self.dispatch(&mut st, None);
    }

    pub fn join_res(id: TaskId) -> u64 {
        // resources 2..16 reserved; join resources live in a separate range
        (1u64 << 40) + id as u64
    }

    fn note(st: &mut KState, task: TaskId, what: impl FnOnce() -> String, h: &[u64]) {
        st.hash.u64(task as u64);
        for v in h {
            st.hash.u64(*v);
        }
        if st.record_trace && st.trace.len() < 5000 {
            let step = st.steps;
            st.trace.push(TraceEvent { step, task, what: what() });
        }
    }

    fn wake_locked(st: &mut KState, res: u64) {
        for t in st.tasks.iter_mut() {
            if let TState::Blocked { res: r, .. } = t.info.state {
                if r == res {
                    t.info.state = TState::Runnable;
                    t.timed_out = false;
                }
            }
        }
    }

    /// Choose who runs next and hand over. `me` is the calling task if it wants to keep
    /// competing (runnable) — None if the caller has finished.
    /// Returns the chosen task (None = quiescent).
    fn dispatch(self: &Arc<Self>, st: &mut KState, me: Option<TaskId>) -> Option<TaskId> {
        loop {
            let runnable: Vec<TaskId> =
                st.tasks.iter().filter(|t| t.info.state == TState::Runnable).map(|t| t.info.id).collect();
            if runnable.is_empty() {
                // idle waiters: "everything else is blocked or finished"
                let idle: Vec<TaskId> = st
                    .tasks
                    .iter()
                    .filter(|t| matches!(t.info.state, TState::Blocked { res: IDLE_RES, .. }))
                    .map(|t| t.info.id)
                    .collect();
                if !idle.is_empty() {
                    // time passes first, but a task that merely polls (wakes up on a timer, finds
                    // nothing to do, waits again) must not keep the harness from ever seeing an
                    // idle system: after a few timer firings in a row the idle waiters run
                    if st.timer_streak < 3 {
                        if let Some((tid, dl)) = Self::earliest_deadline(st, true) {
                            st.timer_streak += 1;
                            st.now = st.now.max(dl);
                            st.tasks[tid].info.state = TState::Runnable;
                            st.tasks[tid].timed_out = true;
                            continue;
                        }
                    }
                    st.timer_streak = 0;
                    for i in idle {
                        st.tasks[i].info.state = TState::Runnable;
                        st.tasks[i].timed_out = false;
                    }
                    continue;
                }
                if let Some((tid, dl)) = Self::earliest_deadline(st, false) {
                    // once the main task has finished, a system that only keeps polling is quiescent
                    let main_done = st.tasks.first().map(|t| t.info.state == TState::Finished).unwrap_or(true);
                    if !(main_done && st.timer_streak >= 64) {
                        if main_done {
                            st.timer_streak += 1;
                        }
                        st.now = st.now.max(dl);
                        st.tasks[tid].info.state = TState::Runnable;
                        st.tasks[tid].timed_out = true;
                        continue;
                    }
                }
                st.current = None;
                st.done = true;
                self.main_cv.notify_all();
                return None;
            }
            let chosen = if runnable.len() == 1 {
                runnable[0]
            } else {
                st.contested += 1;
                let c = Self::choose(st, &runnable, me);
                st.record.push(c as u32);
                c
            };
            st.current = Some(chosen);
            if Some(chosen) != me {
                st.tasks[chosen].cv.notify_all();
            }
            return Some(chosen);
        }
    }

    fn earliest_deadline(st: &KState, skip_idle: bool) -> Option<(TaskId, u64)> {
        let mut best: Option<(TaskId, u64)> = None;
        for t in st.tasks.iter() {
            if let TState::Blocked { res, deadline: Some(d) } = t.info.state {
                if skip_idle && res == IDLE_RES {
                    continue;
                }
                if best.map(|(_, bd)| d < bd).unwrap_or(true) {
                    best = Some((t.info.id, d));
                }
            }
        }
        best
    }

    fn choose(st: &mut KState, runnable: &[TaskId], me: Option<TaskId>) -> TaskId {
        let step = st.steps;
        let me_runnable = me.filter(|m| runnable.contains(m));
        match &mut st.sched.strategy {
            Strategy::Uniform => runnable[st.sched.rng.usize_below(runnable.len())],
            Strategy::Bursty { mean } => {
                let mean = (*mean).max(1) as u64;
                if let Some(m) = me_runnable {
                    if !st.sched.rng.chance(1, mean) {
                        return m;
                    }
                }
                runnable[st.sched.rng.usize_below(runnable.len())]
            }
            Strategy::StarveAnon => {
                let named: Vec<TaskId> = runnable.iter().copied().filter(|t| !st.tasks[*t].info.anon).collect();
                let pool = if named.is_empty() { runnable.to_vec() } else { named };
                pool[st.sched.rng.usize_below(pool.len())]
            }
            Strategy::FavourAnon => {
                let anon: Vec<TaskId> = runnable.iter().copied().filter(|t| st.tasks[*t].info.anon).collect();
                let pool = if anon.is_empty() { runnable.to_vec() } else { anon };
                pool[st.sched.rng.usize_below(pool.len())]
            }
            Strategy::Pct { .. } => {
                // priority change points: lower the priority of the running task
                while let Some(p) = st.sched.pct_points.first().copied() {
                    if p <= step {
                        st.sched.pct_points.remove(0);
                        if let Some(m) = me_runnable {
                            st.sched.pct_next_low = st.sched.pct_next_low.saturating_sub(1);
                            st.tasks[m].prio = st.sched.pct_next_low;
                        }
                    } else {
                        break;
                    }
                }
                let mut best = runnable[0];
                for t in runnable {
                    if st.tasks[*t].prio > st.tasks[best].prio {
                        best = *t;
                    }
                }
                best
            }
            Strategy::Replay(choices) => {
                let pos = st.sched.replay_pos;
                st.sched.replay_pos += 1;
                if let Some(c) = choices.get(pos) {
                    let c = *c as usize;
                    if runnable.contains(&c) {
                        return c;
                    }
                    st.sched.replay_diverged = true;
                }
                match me_runnable {
                    Some(m) => m,
                    None => runnable[0],
                }
            }
        }
    }

    /// Wait (holding the kernel lock) until this task owns the baton. Unwinds with AbortToken if
    /// the run is torn down meanwhile (unless already unwinding).
    fn wait_for_baton<'a>(&'a self, mut st: MutexGuard<'a, KState>, me: TaskId) -> Result<MutexGuard<'a, KState>, ()> {
        loop {
            if st.aborting {
                return Err(());
            }
            if st.current == Some(me) && st.tasks[me].info.state == TState::Runnable {
                return Ok(st);
            }
            let cv = st.tasks[me].cv.clone();
            st = match cv.wait(st) {
                Ok(g) => g,
                Err(p) => p.into_inner(),
            };
        }
    }

    fn abort_unwind() -> Wake {
        if std::thread::panicking() {
            Wake::Aborted
        } else {
            panic::resume_unwind(Box::new(AbortToken));
        }
    }

    /// A scheduling point: some task (possibly the caller) continues.
    pub fn yield_point(self: &Arc<Self>, me: TaskId, what: impl FnOnce() -> String, h: &[u64]) {
        self.yield_point_kind(me, what, h, true)
    }

    /// `own_step`: whether the point counts towards the task's own step count (an after-effect
    /// point does not: it belongs to the operation whose effect it follows, so per-call step
    /// budgets mean the same in runs with and without after-effect points).
    fn yield_point_kind(self: &Arc<Self>, me: TaskId, what: impl FnOnce() -> String, h: &[u64], own_step: bool) {
        let mut st = self.lock();
        if st.aborting {
            drop(st);
            Self::abort_unwind();
            return;
        }
        st.steps += 1;
        if own_step {
            st.tasks[me].info.steps += 1;
        }
        Self::note(&mut st, me, what, h);
        if st.steps > st.step_cap {
            if st.error.is_none() {
                st.error = Some(format!("step cap {} exceeded", st.step_cap));
            }
            st.current = None;
            st.done = true;
            self.main_cv.notify_all();
            // wait for teardown
            let cv = st.tasks[me].cv.clone();
            while !st.aborting {
                st = match cv.wait(st) {
                    Ok(g) => g,
                    Err(p) => p.into_inner(),
                };
            }
            drop(st);
            Self::abort_unwind();
            return;
        }
        let chosen = self.dispatch(&mut st, Some(me));
        if chosen == Some(me) {
            return;
        }
        match self.wait_for_baton(st, me) {
            Ok(_) => {}
            Err(()) => {
                Self::abort_unwind();
            }
        }
    }

    /// Block the calling task on `res` until another task calls `wake(res)` (or the simulated
    /// deadline passes). Callers must re-check their condition afterwards.
    pub fn block_on(self: &Arc<Self>, me: TaskId, res: u64, timeout: Option<u64>, what: impl FnOnce() -> String) -> Wake {
        let mut st = self.lock();
        if st.aborting {
            drop(st);
            return Self::abort_unwind();
        }
        let deadline = timeout.map(|t| st.now.saturating_add(t));
        st.tasks[me].info.state = TState::Blocked { res, deadline };
        if res != IDLE_RES {
            st.tasks[me].info.ever_blocked = true;
            st.tasks[me].info.blocks += 1;
        }
        st.tasks[me].timed_out = false;
        Self::note(&mut st, me, what, &[0xB0, res]);
        self.dispatch(&mut st, None);
        match self.wait_for_baton(st, me) {
            Ok(mut st) => {
                if st.tasks[me].timed_out {
                    st.tasks[me].timed_out = false;
                    Wake::TimedOut
                } else {
                    Wake::Notified
                }
            }
            Err(()) => Self::abort_unwind(),
        }
    }

    /// The next `block_on` of `me` is a wait for a mutex held by another task.
    pub fn note_lock_wait(&self, me: TaskId) {
        let mut st = self.lock();
        st.tasks[me].info.lock_waits += 1;
    }

    pub fn note_cas_failure(&self, me: TaskId) {
        let mut st = self.lock();
        st.tasks[me].info.cas_failures += 1;
    }

    pub fn wake(&self, res: u64) {
        let mut st = self.lock();
        if st.aborting {
            return;
        }
        Self::wake_locked(&mut st, res);
    }

    pub fn new_res(&self) -> u64 {
        let mut st = self.lock();
        let r = st.next_res;
        st.next_res += 1;
        r
    }

    pub fn aborting(&self) -> bool {
        self.lock().aborting
    }

    pub fn now(&self) -> u64 {
        self.lock().now
    }

    pub fn steps(&self) -> u64 {
        self.lock().steps
    }

    pub fn set_label(&self, me: TaskId, label: String) {
        let mut st = self.lock();
        if !st.aborting {
            st.tasks[me].info.label = label;
        }
    }

    pub fn task_table(&self) -> Vec<TaskInfo> {
        self.lock().tasks.iter().map(|t| t.info.clone()).collect()
    }

    pub fn is_finished(&self, id: TaskId) -> bool {
        let st = self.lock();
        st.tasks.get(id).map(|t| t.info.state == TState::Finished).unwrap_or(true)
    }

    /// Record an observable event in the trace (hash + optional text), no scheduling.
    pub fn event(&self, me: TaskId, what: impl FnOnce() -> String, h: &[u64]) {
        let mut st = self.lock();
        if st.aborting {
            return;
        }
        Self::note(&mut st, me, what, h);
    }

    pub fn chan_event(&self, me: TaskId, chan: u64, op: &'static str, ok: bool, len_after: usize, cap: Option<usize>, payload: String) {
        let mut st = self.lock();
        if st.aborting {
            return;
        }
        let step = st.steps;
        let mut h = Fnv::default();
        h.bytes(payload.as_bytes());
        h.bytes(op.as_bytes());
        Self::note(&mut st, me, || format!("chan#{chan}.{op} ok={ok} len={len_after} {payload}"), &[0x5F, chan, ok as u64, len_after as u64, h.0]);
        st.chan_log.push(ChanEvent { step, task: me, chan, op, ok, len_after, cap, payload });
    }

    pub fn chan_log(&self) -> Vec<ChanEvent> {
        self.lock().chan_log.clone()
    }

    pub fn with_hb<R>(&self, f: impl FnOnce(&mut HbTracker) -> R) -> Option<R> {
        let mut st = self.lock();
        if st.aborting {
            return None;
        }
        st.hb.as_mut().map(f)
    }

    /// Spawn a simulated task. Returns its id, or None while the run is being torn down.
    pub fn spawn_task<F: FnOnce() + Send + 'static>(self: &Arc<Self>, parent: TaskId, name: Option<String>, f: F) -> Option<TaskId> {
        let id = {
            let mut st = self.lock();
            if st.aborting {
                return None;
            }
            let anon = name.is_none();
            let nm = name.unwrap_or_else(|| format!("anon{}", st.tasks.len()));
            self.register_task(&mut st, nm, anon, Some(parent))
        };
        self.start_os_thread(id, f);
        Some(id)
    }
}

// ---- convenience free functions used by shims and harnesses ----

/// A deterministic coin for the shims (true one time in `n`): a function of the run's seed and the
/// current step, so it neither perturbs the scheduler's stream nor breaks replay.
pub fn coin(n: u64) -> bool {
    match current() {
        Some((k, _)) => {
            let st = k.lock();
            crate::rng::mix(&[st.coin_seed, st.steps, 0xC01]) % n.max(1) == 0
        }
        None => false,
    }
}

/// Scheduling point right after the effect of a shim operation (only in runs that have it enabled).
pub fn post_effect() {
    if let Some((k, me)) = current() {
        if k.post_yield {
            k.yield_point_kind(me, || "after-effect".to_string(), &[0x7E], false);
        }
    }
}

/// Scheduling point (no-op outside a simulation).
pub fn yield_now_with(what: impl FnOnce() -> String, h: &[u64]) {
    if let Some((k, me)) = current() {
        k.yield_point(me, what, h);
    }
}

pub fn yield_now() {
    yield_now_with(|| "yield".into(), &[0x01]);
}

pub fn set_label(label: impl Into<String>) {
    if let Some((k, me)) = current() {
        k.set_label(me, label.into());
    }
}

/// Block until every other task is blocked or finished (a harness-made quiescent point).
pub fn wait_idle() {
    if let Some((k, me)) = current() {
        let _ = k.block_on(me, IDLE_RES, None, || "wait-idle".into());
    }
}

pub fn task_table() -> Vec<TaskInfo> {
    current().map(|(k, _)| k.task_table()).unwrap_or_default()
}

pub fn event(what: impl FnOnce() -> String, h: &[u64]) {
    if let Some((k, me)) = current() {
        k.event(me, what, h);
    }
}

/// (own scheduling steps, times blocked) of the calling task
/// (own steps, blocked states other than waits for a mutex, waits for a mutex) of the calling task.
pub fn my_stats3() -> (u64, u64, u64) {
    match current() {
        Some((k, me)) => {
            let st = k.lock();
            let i = &st.tasks[me].info;
            (i.steps, i.blocks.saturating_sub(i.lock_waits), i.lock_waits)
        }
        None => (0, 0, 0),
    }
}

pub fn my_cas_failures() -> u64 {
    match current() {
        Some((k, me)) => k.lock().tasks[me].info.cas_failures,
        None => 0,
    }
}

pub fn my_stats() -> (u64, u64) {
    match current() {
        Some((k, me)) => {
            let st = k.lock();
            (st.tasks[me].info.steps, st.tasks[me].info.blocks)
        }
        None => (0, 0),
    }
}

pub fn chan_log() -> Vec<ChanEvent> {
    current().map(|(k, _)| k.chan_log()).unwrap_or_default()
}

pub fn steps() -> u64 {
    current().map(|(k, _)| k.steps()).unwrap_or(0)
}

/// Lazily assign a small deterministic id to a shim object (stored in the object itself).
pub fn object_id(slot: &std::sync::atomic::AtomicU64) -> u64 {
    use std::sync::atomic::Ordering::Relaxed;
    let v = slot.load(Relaxed);
    if v != 0 {
        return v;
    }
    match current() {
        Some((k, _)) => {
            let id = k.new_res();
            slot.store(id, Relaxed);
            id
        }
        None => 0,
    }
}

/// A counting gate owned by the harness: tasks `wait()` until it is opened.
#[derive(Clone)]
pub struct Gate {
    inner: Arc<GateInner>,
}

struct GateInner {
    open: std::sync::atomic::AtomicBool,
    id: std::sync::atomic::AtomicU64,
}

impl std::fmt::Debug for Gate {
    fn fmt(&self, f: &mut std::fmt::Formatter<'_>) -> std::fmt::Result {
        write!(f, "Gate(open={})", self.is_open())
    }
}

impl Default for Gate {
    fn default() -> Self {
        Self::new()
    }
}

impl Gate {
    pub fn new() -> Gate {
        Gate {
            inner: Arc::new(GateInner {
                open: std::sync::atomic::AtomicBool::new(false),
                id: std::sync::atomic::AtomicU64::new(0),
            }),
        }
    }

    pub fn is_open(&self) -> bool {
        self.inner.open.load(std::sync::atomic::Ordering::SeqCst)
    }

    pub fn open(&self) {
        self.inner.open.store(true, std::sync::atomic::Ordering::SeqCst);
        if let Some((k, _)) = current() {
            let id = object_id(&self.inner.id);
            k.wake(id);
        }
    }

    /// Wait until open. Outside a simulation this returns immediately if open and panics otherwise.
    pub fn wait(&self, what: &str) {
        loop {
            if self.is_open() {
                return;
            }
            match current() {
                Some((k, me)) => {
                    let id = object_id(&self.inner.id);
                    if k.block_on(me, id, None, || format!("gate-wait {what}")) == Wake::Aborted {
                        return;
                    }
                }
                None => panic!("Gate::wait outside simulation"),
            }
        }
    }
}

#[allow(dead_code)]
fn _assert_traits() {
    fn is_send_sync<T: Send + Sync>() {}
    is_send_sync::<Kernel>();
}
