//! `cadence_dsim` — deterministic simulation kernel and pass-through shims for the pieces of
//! std / crossbeam that `56quarters/cadence` names directly. Written for /verif; see DESIGN.md.

pub mod cell;
pub mod channel;
pub mod hb;
pub mod kernel;
pub mod net;
pub mod rng;
pub mod sync;
pub mod thread;

pub use kernel::{set_label, wait_idle, yield_now, Gate, KConfig, Kernel, RunResult, Strategy, TState, TaskInfo};
