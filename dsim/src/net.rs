//! Stub datagram sockets: an in-memory ledger with an injectable result per send. Nothing here
//! touches the real network stack; evidence files say so (`stub: socket`).

use crate::kernel::{self, Gate};
use std::io;
use std::net::{SocketAddr, ToSocketAddrs};
use std::path::Path;
use std::sync::atomic::{AtomicBool, AtomicU64, Ordering};
use std::sync::{Arc, Mutex};

pub const UDP_MAX_DATAGRAM: usize = 65_507;

/// What the simulated socket answers to one send attempt.
#[derive(Clone, Debug)]
pub enum SendOutcome {
    Ok,
    /// fail with this kind; `os` (errno) if the error should look like a real OS error
    Err { kind: io::ErrorKind, os: Option<i32> },
    /// socket buffer full: EAGAIN in non-blocking mode, otherwise block until the gate opens, then Ok
    Full(Gate),
}

#[derive(Clone, Debug)]
pub struct SendRec {
    pub idx: usize,
    pub task: Option<usize>,
    pub step: u64,
    pub dest: String,
    pub payload: Vec<u8>,
    /// Ok(bytes) or Err((kind, os errno, message))
    pub result: Result<usize, (io::ErrorKind, Option<i32>, String)>,
    pub nonblocking: bool,
}

struct Shared {
    id: AtomicU64,
    ledger: Mutex<Vec<SendRec>>,
    plan: Mutex<Vec<SendOutcome>>,
    attempts: AtomicU64,
    nonblocking: AtomicBool,
    max_dgram: AtomicU64,
    connected: Mutex<Option<String>>,
}

/// Harness-side handle of a simulated socket.
#[derive(Clone)]
pub struct SockCtl {
    sh: Arc<Shared>,
}

impl SockCtl {
    /// Outcome of the i-th send attempt (attempts beyond the plan succeed).
    pub fn set_plan(&self, plan: Vec<SendOutcome>) {
        *self.sh.plan.lock().unwrap() = plan;
    }
    pub fn ledger(&self) -> Vec<SendRec> {
        self.sh.ledger.lock().unwrap().clone()
    }
    pub fn attempts(&self) -> u64 {
        self.sh.attempts.load(Ordering::SeqCst)
    }
    pub fn set_max_datagram(&self, n: usize) {
        self.sh.max_dgram.store(n as u64, Ordering::SeqCst);
    }
    pub fn is_nonblocking(&self) -> bool {
        self.sh.nonblocking.load(Ordering::SeqCst)
    }
}

fn new_shared(max: usize) -> Arc<Shared> {
    Arc::new(Shared {
        id: AtomicU64::new(0),
        ledger: Mutex::new(Vec::new()),
        plan: Mutex::new(Vec::new()),
        attempts: AtomicU64::new(0),
        nonblocking: AtomicBool::new(false),
        max_dgram: AtomicU64::new(max as u64),
        connected: Mutex::new(None),
    })
}

fn do_send(sh: &Arc<Shared>, buf: &[u8], dest: String) -> io::Result<usize> {
    let id = kernel::object_id(&sh.id);
    kernel::yield_now_with(|| format!("sock#{id}.send {} bytes", buf.len()), &[0x60, id, buf.len() as u64]);
    let idx = sh.attempts.fetch_add(1, Ordering::SeqCst) as usize;
    let nonblocking = sh.nonblocking.load(Ordering::SeqCst);
    let outcome = {
        let plan = sh.plan.lock().unwrap();
        plan.get(idx).cloned().unwrap_or(SendOutcome::Ok)
    };
    let max = sh.max_dgram.load(Ordering::SeqCst) as usize;
    let result: Result<usize, (io::ErrorKind, Option<i32>, String)> = if buf.len() > max {
        Err((io::Error::from_raw_os_error(90).kind(), Some(90), "EMSGSIZE".into()))
    } else {
        match outcome {
            SendOutcome::Ok => Ok(buf.len()),
            SendOutcome::Err { kind, os } => Err((kind, os, format!("fault#{idx}"))),
            SendOutcome::Full(gate) => {
                if nonblocking {
                    Err((io::ErrorKind::WouldBlock, Some(11), format!("fault#{idx}")))
                } else {
                    gate.wait("socket buffer full");
                    Ok(buf.len())
                }
            }
        }
    };
    let rec = SendRec {
        idx,
        task: kernel::current_task(),
        step: kernel::steps(),
        dest,
        payload: buf.to_vec(),
        result: result.clone(),
        nonblocking,
    };
    let mut fh = crate::rng::Fnv::default();
    fh.bytes(buf);
    kernel::event(
        || format!("sock#{id}.sent#{idx} {:?} {:?}", String::from_utf8_lossy(buf), rec.result),
        &[0x61, id, idx as u64, fh.0, result.is_ok() as u64],
    );
    sh.ledger.lock().unwrap().push(rec);
    match result {
        Ok(n) => Ok(n),
        Err((kind, os, msg)) => Err(make_error(kind, os, &msg)),
    }
}

pub fn make_error(kind: io::ErrorKind, os: Option<i32>, msg: &str) -> io::Error {
    match os {
        Some(code) => io::Error::from_raw_os_error(code),
        None => io::Error::new(kind, msg.to_string()),
    }
}

#[derive(Debug)]
pub struct UdpSocket {
    sh: ArcDbg,
    local: SocketAddr,
}

pub struct ArcDbg(Arc<Shared>);

impl std::fmt::Debug for ArcDbg {
    fn fmt(&self, f: &mut std::fmt::Formatter<'_>) -> std::fmt::Result {
        f.pad("SimSocket")
    }
}

impl UdpSocket {
    pub fn bind<A: ToSocketAddrs>(addr: A) -> io::Result<UdpSocket> {
        let local = addr
            .to_socket_addrs()?
            .next()
            .ok_or_else(|| io::Error::new(io::ErrorKind::InvalidInput, "no addresses to bind to"))?;
        Ok(UdpSocket { sh: ArcDbg(new_shared(UDP_MAX_DATAGRAM)), local })
    }

    pub fn ctl(&self) -> SockCtl {
        SockCtl { sh: self.sh.0.clone() }
    }

    pub fn set_nonblocking(&self, nb: bool) -> io::Result<()> {
        self.sh.0.nonblocking.store(nb, Ordering::SeqCst);
        Ok(())
    }

    pub fn send_to<A: ToSocketAddrs>(&self, buf: &[u8], addr: A) -> io::Result<usize> {
        match addr.to_socket_addrs()?.next() {
            Some(a) => do_send(&self.sh.0, buf, a.to_string()),
            None => Err(io::Error::new(io::ErrorKind::InvalidInput, "no addresses to send data to")),
        }
    }

    pub fn connect<A: ToSocketAddrs>(&self, addr: A) -> io::Result<()> {
        match addr.to_socket_addrs()?.next() {
            Some(a) => {
                *self.sh.0.connected.lock().unwrap() = Some(a.to_string());
                Ok(())
            }
            None => Err(io::Error::new(io::ErrorKind::InvalidInput, "no addresses to connect to")),
        }
    }

    pub fn send(&self, buf: &[u8]) -> io::Result<usize> {
        let dest = self.sh.0.connected.lock().unwrap().clone();
        match dest {
            Some(d) => do_send(&self.sh.0, buf, d),
            None => Err(io::Error::from_raw_os_error(89)),
        }
    }

    pub fn local_addr(&self) -> io::Result<SocketAddr> {
        Ok(self.local)
    }

    pub fn try_clone(&self) -> io::Result<UdpSocket> {
        Ok(UdpSocket { sh: ArcDbg(self.sh.0.clone()), local: self.local })
    }
}

#[derive(Debug)]
pub struct UnixDatagram {
    sh: ArcDbg,
}

impl UnixDatagram {
    pub fn unbound() -> io::Result<UnixDatagram> {
        Ok(UnixDatagram { sh: ArcDbg(new_shared(212_992)) })
    }

    pub fn bind<P: AsRef<Path>>(_path: P) -> io::Result<UnixDatagram> {
        Self::unbound()
    }

    pub fn ctl(&self) -> SockCtl {
        SockCtl { sh: self.sh.0.clone() }
    }

    pub fn set_nonblocking(&self, nb: bool) -> io::Result<()> {
        self.sh.0.nonblocking.store(nb, Ordering::SeqCst);
        Ok(())
    }

    pub fn send_to<P: AsRef<Path>>(&self, buf: &[u8], path: P) -> io::Result<usize> {
        do_send(&self.sh.0, buf, path.as_ref().to_string_lossy().into_owned())
    }

    pub fn connect<P: AsRef<Path>>(&self, path: P) -> io::Result<()> {
        *self.sh.0.connected.lock().unwrap() = Some(path.as_ref().to_string_lossy().into_owned());
        Ok(())
    }

    pub fn send(&self, buf: &[u8]) -> io::Result<usize> {
        let dest = self.sh.0.connected.lock().unwrap().clone();
        match dest {
            Some(d) => do_send(&self.sh.0, buf, d),
            None => Err(io::Error::from_raw_os_error(107)),
        }
    }

    pub fn try_clone(&self) -> io::Result<UnixDatagram> {
        Ok(UnixDatagram { sh: ArcDbg(self.sh.0.clone()) })
    }
}
