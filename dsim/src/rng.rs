//! Seeded PRNG: splitmix64 for seeding/mixing, xoshiro256** as the stream.
//! No other source of randomness exists anywhere in the simulator.

pub fn splitmix64(x: &mut u64) -> u64 {
    *x = x.wrapping_add(0x9E37_79B9_7F4A_7C15);
    let mut z = *x;
    z = (z ^ (z >> 30)).wrapping_mul(0xBF58_476D_1CE4_E5B9);
    z = (z ^ (z >> 27)).wrapping_mul(0x94D0_49BB_1331_11EB);
    z ^ (z >> 31)
}

/// Mix several integers into one 64-bit seed (order-sensitive).
pub fn mix(parts: &[u64]) -> u64 {
    let mut s = 0x243F_6A88_85A3_08D3u64;
    let mut out = 0u64;
    for p in parts {
        s ^= *p;
        out = splitmix64(&mut s) ^ out.rotate_left(17);
    }
    let mut t = out;
    splitmix64(&mut t)
}

#[derive(Clone, Debug)]
pub struct Rng {
    s: [u64; 4],
}

impl Rng {
    pub fn new(seed: u64) -> Rng {
        let mut x = seed;
        let mut s = [0u64; 4];
        for v in s.iter_mut() {
            *v = splitmix64(&mut x);
        }
        if s == [0, 0, 0, 0] {
            s[0] = 1;
        }
        Rng { s }
    }

    /// Independent sub-stream number `n` (does not advance `self`).
    pub fn split(&self, n: u64) -> Rng {
        Rng::new(mix(&[self.s[0], self.s[1], self.s[2], self.s[3], n]))
    }

    pub fn next_u64(&mut self) -> u64 {
        let result = self.s[1].wrapping_mul(5).rotate_left(7).wrapping_mul(9);
        let t = self.s[1] << 17;
        self.s[2] ^= self.s[0];
        self.s[3] ^= self.s[1];
        self.s[1] ^= self.s[2];
        self.s[0] ^= self.s[3];
        self.s[2] ^= t;
        self.s[3] = self.s[3].rotate_left(45);
        result
    }

    /// Uniform in 0..n (n > 0).
    pub fn below(&mut self, n: u64) -> u64 {
        debug_assert!(n > 0);
        // multiply-shift; bias is irrelevant at these sizes
        ((self.next_u64() as u128 * n as u128) >> 64) as u64
    }

    pub fn range(&mut self, lo: u64, hi_incl: u64) -> u64 {
        lo + self.below(hi_incl - lo + 1)
    }

    pub fn usize_below(&mut self, n: usize) -> usize {
        self.below(n as u64) as usize
    }

    /// True with probability num/den.
    pub fn chance(&mut self, num: u64, den: u64) -> bool {
        self.below(den) < num
    }

    pub fn pick<'a, T>(&mut self, xs: &'a [T]) -> &'a T {
        &xs[self.usize_below(xs.len())]
    }

    /// Weighted index.
    pub fn weighted(&mut self, weights: &[u32]) -> usize {
        let total: u64 = weights.iter().map(|w| *w as u64).sum();
        debug_assert!(total > 0);
        let mut r = self.below(total);
        for (i, w) in weights.iter().enumerate() {
            if r < *w as u64 {
                return i;
            }
            r -= *w as u64;
        }
        weights.len() - 1
    }
}

/// FNV-1a style rolling hash used for trace and schedule hashes.
#[derive(Clone, Copy, Debug)]
pub struct Fnv(pub u64);

impl Default for Fnv {
    fn default() -> Self {
        Fnv(0xcbf2_9ce4_8422_2325)
    }
}

impl Fnv {
    pub fn u64(&mut self, v: u64) {
        for b in v.to_le_bytes() {
            self.0 ^= b as u64;
            self.0 = self.0.wrapping_mul(0x0000_0100_0000_01B3);
        }
    }
    pub fn bytes(&mut self, bs: &[u8]) {
        for b in bs {
            self.0 ^= *b as u64;
            self.0 = self.0.wrapping_mul(0x0000_0100_0000_01B3);
        }
        self.u64(bs.len() as u64);
    }
}
