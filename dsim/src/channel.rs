//! Shim for `crossbeam_channel`: the real crossbeam queue stores the messages and decides
//! Full / Disconnected; only *waiting* is done by the simulation kernel (recv/send loop on the
//! try_ variants and block in the simulator). Every operation is a scheduling point and is
//! written to the kernel's channel log for the oracles.
//!
//! The zero-capacity (rendezvous) flavour is modelled by hand (a simulated receiver never parks
//! inside crossbeam): a send succeeds only while a receiver is blocked in `recv`.

use crate::kernel::{self, Wake};
pub use crossbeam_channel::{RecvError, RecvTimeoutError, SendError, SendTimeoutError, TryRecvError, TrySendError};
use std::any::Any;
use std::sync::atomic::{AtomicU64, AtomicUsize, Ordering};
use std::sync::Arc;
use std::time::Duration;

struct Meta {
    id: AtomicU64,
    cap: Option<usize>,
    /// rendezvous model in use (capacity 0 created inside a simulation)
    rendezvous: bool,
    waiting_receivers: AtomicUsize,
    /// live Receiver handles (a rendezvous send to nobody is `Disconnected`, not `Full`)
    receivers: AtomicUsize,
}

pub struct Sender<T> {
    inner: Option<crossbeam_channel::Sender<T>>,
    meta: Arc<Meta>,
}

pub struct Receiver<T> {
    inner: Option<crossbeam_channel::Receiver<T>>,
    meta: Arc<Meta>,
}

fn describe<T: 'static>(v: &T) -> String {
    let a = v as &dyn Any;
    if let Some(s) = a.downcast_ref::<Option<String>>() {
        match s {
            Some(x) => format!("S:{x}"),
            None => "NONE".to_string(),
        }
    } else if let Some(s) = a.downcast_ref::<String>() {
        format!("S:{s}")
    } else if let Some(b) = a.downcast_ref::<Vec<u8>>() {
        format!("B:{}", String::from_utf8_lossy(b))
    } else {
        "?".to_string()
    }
}

fn new_pair<T>(cap: Option<usize>) -> (Sender<T>, Receiver<T>) {
    let rendezvous = cap == Some(0) && kernel::in_sim();
    let (tx, rx) = match cap {
        None => crossbeam_channel::unbounded(),
        Some(0) if rendezvous => crossbeam_channel::bounded(1),
        Some(n) => crossbeam_channel::bounded(n),
    };
    let meta = Arc::new(Meta { id: AtomicU64::new(0), cap, rendezvous, waiting_receivers: AtomicUsize::new(0), receivers: AtomicUsize::new(1) });
    (Sender { inner: Some(tx), meta: meta.clone() }, Receiver { inner: Some(rx), meta })
}

pub fn bounded<T>(cap: usize) -> (Sender<T>, Receiver<T>) {
    new_pair(Some(cap))
}

pub fn unbounded<T>() -> (Sender<T>, Receiver<T>) {
    new_pair(None)
}

impl Meta {
    fn res(&self) -> u64 {
        kernel::object_id(&self.id)
    }
}

fn log(meta: &Meta, op: &'static str, ok: bool, len_after: usize, payload: String) {
    if let Some((k, me)) = kernel::current() {
        let chan = meta.res();
        k.chan_event(me, chan, op, ok, len_after, meta.cap, payload);
    }
}

impl<T: 'static> Sender<T> {
    fn tx(&self) -> &crossbeam_channel::Sender<T> {
        self.inner.as_ref().unwrap()
    }

    pub fn try_send(&self, msg: T) -> Result<(), TrySendError<T>> {
        let res = self.meta.res();
        kernel::yield_now_with(|| format!("chan#{res}.try_send"), &[0x50, res]);
        let desc = if kernel::in_sim() { describe(&msg) } else { String::new() };
        if self.meta.rendezvous && self.meta.receivers.load(Ordering::SeqCst) > 0 && self.meta.waiting_receivers.load(Ordering::SeqCst) <= self.tx().len() {
            log(&self.meta, "try_send", false, self.tx().len(), desc);
            return Err(TrySendError::Full(msg));
        }
        let r = self.tx().try_send(msg);
        if let Some((k, _)) = kernel::current() {
            if r.is_ok() {
                k.wake(res);
            }
        }
        log(&self.meta, "try_send", r.is_ok(), self.tx().len(), desc);
        kernel::post_effect();
        r
    }

    pub fn send(&self, msg: T) -> Result<(), SendError<T>> {
        let (k, me) = match kernel::current() {
            Some(c) => c,
            None => return self.tx().send(msg),
        };
        let res = self.meta.res();
        let desc = describe(&msg);
        let mut msg = msg;
        loop {
            k.yield_point(me, || format!("chan#{res}.send"), &[0x51, res]);
            let blocked_rdv = self.meta.rendezvous && self.meta.receivers.load(Ordering::SeqCst) > 0 && self.meta.waiting_receivers.load(Ordering::SeqCst) <= self.tx().len();
            if !blocked_rdv {
                match self.tx().try_send(msg) {
                    Ok(()) => {
                        k.wake(res);
                        log(&self.meta, "send", true, self.tx().len(), desc);
                        kernel::post_effect();
                        return Ok(());
                    }
                    Err(TrySendError::Disconnected(m)) => {
                        log(&self.meta, "send", false, self.tx().len(), desc);
                        return Err(SendError(m));
                    }
                    Err(TrySendError::Full(m)) => msg = m,
                }
            }
            if k.block_on(me, res, None, || format!("chan#{res}.send-wait")) == Wake::Aborted {
                return Err(SendError(msg));
            }
        }
    }

    pub fn send_timeout(&self, msg: T, timeout: Duration) -> Result<(), SendTimeoutError<T>> {
        let (k, me) = match kernel::current() {
            Some(c) => c,
            None => return self.tx().send_timeout(msg, timeout),
        };
        let res = self.meta.res();
        let desc = describe(&msg);
        let deadline = k.now().saturating_add(timeout.as_nanos().min(u64::MAX as u128) as u64);
        let mut msg = msg;
        loop {
            k.yield_point(me, || format!("chan#{res}.send_timeout"), &[0x52, res]);
            let blocked_rdv = self.meta.rendezvous && self.meta.receivers.load(Ordering::SeqCst) > 0 && self.meta.waiting_receivers.load(Ordering::SeqCst) <= self.tx().len();
            if !blocked_rdv {
                match self.tx().try_send(msg) {
                    Ok(()) => {
                        k.wake(res);
                        log(&self.meta, "send", true, self.tx().len(), desc);
                        kernel::post_effect();
                        return Ok(());
                    }
                    Err(TrySendError::Disconnected(m)) => return Err(SendTimeoutError::Disconnected(m)),
                    Err(TrySendError::Full(m)) => msg = m,
                }
            }
            let now = k.now();
            if now >= deadline {
                return Err(SendTimeoutError::Timeout(msg));
            }
            match k.block_on(me, res, Some(deadline - now), || format!("chan#{res}.send-wait")) {
                Wake::Aborted => return Err(SendTimeoutError::Timeout(msg)),
                _ => {}
            }
        }
    }

    pub fn len(&self) -> usize {
        kernel::yield_now_with(|| "chan.len".into(), &[0x53]);
        self.tx().len()
    }

    pub fn is_empty(&self) -> bool {
        kernel::yield_now_with(|| "chan.is_empty".into(), &[0x54]);
        self.tx().is_empty()
    }

    pub fn is_full(&self) -> bool {
        kernel::yield_now_with(|| "chan.is_full".into(), &[0x55]);
        if self.meta.rendezvous {
            return true;
        }
        self.tx().is_full()
    }

    pub fn capacity(&self) -> Option<usize> {
        self.meta.cap
    }
}

impl<T: 'static> Receiver<T> {
    fn rx(&self) -> &crossbeam_channel::Receiver<T> {
        self.inner.as_ref().unwrap()
    }

    pub fn try_recv(&self) -> Result<T, TryRecvError> {
        let res = self.meta.res();
        kernel::yield_now_with(|| format!("chan#{res}.try_recv"), &[0x58, res]);
        let r = self.rx().try_recv();
        if let Some((k, _)) = kernel::current() {
            if let Ok(v) = &r {
                k.wake(res);
                log(&self.meta, "recv", true, self.rx().len(), describe(v));
            }
        }
        if r.is_ok() {
            kernel::post_effect();
        }
        r
    }

    fn recv_deadline(&self, timeout: Option<u64>) -> Result<T, RecvTimeoutError> {
        let (k, me) = kernel::current().expect("recv_deadline outside simulation");
        let res = self.meta.res();
        let deadline = timeout.map(|t| k.now().saturating_add(t));
        loop {
            k.yield_point(me, || format!("chan#{res}.recv"), &[0x59, res]);
            match self.rx().try_recv() {
                Ok(v) => {
                    k.wake(res);
                    log(&self.meta, "recv", true, self.rx().len(), describe(&v));
                    kernel::post_effect();
                    return Ok(v);
                }
                Err(TryRecvError::Disconnected) => {
                    log(&self.meta, "recv-disconnected", false, 0, String::new());
                    return Err(RecvTimeoutError::Disconnected);
                }
                Err(TryRecvError::Empty) => {}
            }
            let left = match deadline {
                Some(d) => {
                    let now = k.now();
                    if now >= d {
                        return Err(RecvTimeoutError::Timeout);
                    }
                    Some(d - now)
                }
                None => None,
            };
            self.meta.waiting_receivers.fetch_add(1, Ordering::SeqCst);
            if self.meta.rendezvous {
                // a blocked receiver is what lets a rendezvous send proceed
                k.wake(res);
            }
            let w = k.block_on(me, res, left, || format!("chan#{res}.recv-wait"));
            self.meta.waiting_receivers.fetch_sub(1, Ordering::SeqCst);
            if w == Wake::Aborted {
                return Err(RecvTimeoutError::Disconnected);
            }
        }
    }

    pub fn recv(&self) -> Result<T, RecvError> {
        if !kernel::in_sim() {
            return self.rx().recv();
        }
        self.recv_deadline(None).map_err(|_| RecvError)
    }

    pub fn recv_timeout(&self, timeout: Duration) -> Result<T, RecvTimeoutError> {
        if !kernel::in_sim() {
            return self.rx().recv_timeout(timeout);
        }
        self.recv_deadline(Some(timeout.as_nanos().min(u64::MAX as u128) as u64))
    }

    pub fn iter(&self) -> Iter<'_, T> {
        Iter { rx: self }
    }

    pub fn try_iter(&self) -> TryIter<'_, T> {
        TryIter { rx: self }
    }

    pub fn len(&self) -> usize {
        kernel::yield_now_with(|| "chan.len".into(), &[0x53]);
        self.rx().len()
    }

    pub fn is_empty(&self) -> bool {
        kernel::yield_now_with(|| "chan.is_empty".into(), &[0x54]);
        self.rx().is_empty()
    }

    pub fn is_full(&self) -> bool {
        kernel::yield_now_with(|| "chan.is_full".into(), &[0x55]);
        self.rx().is_full()
    }

    pub fn capacity(&self) -> Option<usize> {
        self.meta.cap
    }
}

pub struct Iter<'a, T> {
    rx: &'a Receiver<T>,
}

impl<T: 'static> Iterator for Iter<'_, T> {
    type Item = T;
    fn next(&mut self) -> Option<T> {
        self.rx.recv().ok()
    }
}

pub struct TryIter<'a, T> {
    rx: &'a Receiver<T>,
}

impl<T: 'static> Iterator for TryIter<'_, T> {
    type Item = T;
    fn next(&mut self) -> Option<T> {
        self.rx.try_recv().ok()
    }
}

pub struct IntoIter<T> {
    rx: Receiver<T>,
}

impl<T: 'static> Iterator for IntoIter<T> {
    type Item = T;
    fn next(&mut self) -> Option<T> {
        self.rx.recv().ok()
    }
}

impl<T: 'static> IntoIterator for Receiver<T> {
    type Item = T;
    type IntoIter = IntoIter<T>;
    fn into_iter(self) -> IntoIter<T> {
        IntoIter { rx: self }
    }
}

impl<'a, T: 'static> IntoIterator for &'a Receiver<T> {
    type Item = T;
    type IntoIter = Iter<'a, T>;
    fn into_iter(self) -> Iter<'a, T> {
        self.iter()
    }
}

impl<T> Clone for Sender<T> {
    fn clone(&self) -> Self {
        Sender { inner: self.inner.clone(), meta: self.meta.clone() }
    }
}

impl<T> Clone for Receiver<T> {
    fn clone(&self) -> Self {
        self.meta.receivers.fetch_add(1, Ordering::SeqCst);
        Receiver { inner: self.inner.clone(), meta: self.meta.clone() }
    }
}

impl<T> Drop for Sender<T> {
    fn drop(&mut self) {
        self.inner.take();
        if let Some((k, _)) = kernel::current() {
            let id = self.meta.id.load(Ordering::Relaxed);
            if id != 0 {
                k.wake(id);
            }
            // dropping a sender is observable by the other side (the last one disconnects the
            // channel): a scheduling point AFTER the effect, so that whatever the dropping thread
            // does next (e.g. release further fields of the same struct) can come after the
            // receiver's reaction, as it can on real threads
            kernel::yield_now_with(|| format!("chan#{id}.sender-dropped"), &[0x5D, id]);
        }
    }
}

impl<T> Drop for Receiver<T> {
    fn drop(&mut self) {
        self.inner.take();
        self.meta.receivers.fetch_sub(1, Ordering::SeqCst);
        if let Some((k, _)) = kernel::current() {
            let id = self.meta.id.load(Ordering::Relaxed);
            if id != 0 {
                k.wake(id);
            }
            // the last receiver disconnects the channel (and discards what is queued): visible
            // to the senders, so a scheduling point after the effect
            kernel::yield_now_with(|| format!("chan#{id}.receiver-dropped"), &[0x5E, id]);
        }
    }
}

impl<T> std::fmt::Debug for Sender<T> {
    fn fmt(&self, f: &mut std::fmt::Formatter<'_>) -> std::fmt::Result {
        f.pad("Sender { .. }")
    }
}

impl<T> std::fmt::Debug for Receiver<T> {
    fn fmt(&self, f: &mut std::fmt::Formatter<'_>) -> std::fmt::Result {
        f.pad("Receiver { .. }")
    }
}
