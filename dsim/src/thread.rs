//! Shim for `std::thread`: inside a simulation `spawn` creates a simulated task (a real thread
//! that only runs when the kernel hands it the baton); outside it is plain std.

use crate::kernel::{self, Kernel, TaskId, Wake};
pub use std::thread::{panicking, Result};
use std::sync::{Arc, Mutex};
use std::time::Duration;

enum Inner<T> {
    Std(std::thread::JoinHandle<T>),
    Sim { id: Option<TaskId>, slot: Arc<Mutex<Option<std::thread::Result<T>>>>, kernel: Arc<Kernel> },
}

pub struct JoinHandle<T>(Inner<T>);

impl<T> JoinHandle<T> {
    pub fn join(self) -> Result<T> {
        match self.0 {
            Inner::Std(h) => h.join(),
            Inner::Sim { id, slot, kernel } => {
                let id = match id {
                    Some(i) => i,
                    None => return Err(Box::new(kernel::AbortToken)),
                };
                let me = match kernel::current_task() {
                    Some(m) => m,
                    None => return Err(Box::new(kernel::AbortToken)),
                };
                loop {
                    kernel.yield_point(me, || format!("join task{id}"), &[0x40, id as u64]);
                    if kernel.is_finished(id) {
                        kernel.with_hb(|h| h.on_join(me, id));
                        let r = slot.lock().unwrap().take();
                        return r.unwrap_or_else(|| Err(Box::new(kernel::AbortToken)));
                    }
                    if kernel.block_on(me, Kernel::join_res(id), None, || format!("join-wait task{id}")) == Wake::Aborted {
                        return Err(Box::new(kernel::AbortToken));
                    }
                }
            }
        }
    }

    pub fn is_finished(&self) -> bool {
        match &self.0 {
            Inner::Std(h) => h.is_finished(),
            Inner::Sim { id, kernel, .. } => {
                kernel::yield_now_with(|| "is_finished".into(), &[0x41]);
                id.map(|i| kernel.is_finished(i)).unwrap_or(true)
            }
        }
    }

    /// Simulated task id (None outside a simulation or during teardown).
    pub fn task_id(&self) -> Option<TaskId> {
        match &self.0 {
            Inner::Std(_) => None,
            Inner::Sim { id, .. } => *id,
        }
    }
}

impl<T> std::fmt::Debug for JoinHandle<T> {
    fn fmt(&self, f: &mut std::fmt::Formatter<'_>) -> std::fmt::Result {
        write!(f, "JoinHandle {{ .. }}")
    }
}

fn spawn_inner<F, T>(name: Option<String>, f: F) -> JoinHandle<T>
where
    F: FnOnce() -> T + Send + 'static,
    T: Send + 'static,
{
    match kernel::current() {
        None => JoinHandle(Inner::Std(std::thread::spawn(f))),
        Some((k, me)) => {
            let slot: Arc<Mutex<Option<std::thread::Result<T>>>> = Arc::new(Mutex::new(None));
            let slot2 = slot.clone();
            let id = k.spawn_task(me, name, move || {
                // the kernel's task root catches the unwind again to record it; here we only need
                // the value (or the payload) for join()
                let r = std::panic::catch_unwind(std::panic::AssertUnwindSafe(f));
                // the closure has returned and its captures are dropped, but the thread has not
                // exited yet (join() would still wait): others may run in between
                if r.is_ok() {
                    kernel::post_effect();
                }
                match r {
                    Ok(v) => {
                        *slot2.lock().unwrap() = Some(Ok(v));
                    }
                    Err(p) => {
                        if kernel::is_abort(&*p) {
                            std::panic::resume_unwind(p);
                        }
                        let msg = kernel::take_last_panic().unwrap_or_else(|| kernel::payload_to_string(&*p));
                        *slot2.lock().unwrap() = Some(Err(Box::new(msg.clone())));
                        std::panic::resume_unwind(Box::new(msg));
                    }
                }
            });
            if let Some(i) = id {
                k.yield_point(me, || format!("spawn task{i}"), &[0x42, i as u64]);
            }
            JoinHandle(Inner::Sim { id, slot, kernel: k })
        }
    }
}

pub fn spawn<F, T>(f: F) -> JoinHandle<T>
where
    F: FnOnce() -> T + Send + 'static,
    T: Send + 'static,
{
    spawn_inner(None, f)
}

/// Harness-side spawn: a named task (named tasks are "callers", anonymous ones are threads the
/// code under test created itself).
pub fn spawn_named<F, T>(name: &str, f: F) -> JoinHandle<T>
where
    F: FnOnce() -> T + Send + 'static,
    T: Send + 'static,
{
    spawn_inner(Some(name.to_string()), f)
}

pub fn yield_now() {
    if kernel::in_sim() {
        kernel::yield_now();
    } else {
        std::thread::yield_now();
    }
}

/// Simulated sleep: advances the discrete-event clock, never the wall clock.
pub fn sleep(d: Duration) {
    match kernel::current() {
        Some((k, me)) => {
            let res = k.new_res();
            let _ = k.block_on(me, res, Some(d.as_nanos().min(u64::MAX as u128) as u64), || format!("sleep {d:?}"));
        }
        None => std::thread::sleep(d),
    }
}

/// `park` inside a simulation blocks until `unpark_task` (harness) or forever.
pub fn park() {
    match kernel::current() {
        Some((k, me)) => {
            let _ = k.block_on(me, (1u64 << 41) + me as u64, None, || "park".into());
        }
        None => std::thread::park(),
    }
}

pub fn unpark_task(id: TaskId) {
    if let Some((k, _)) = kernel::current() {
        k.wake((1u64 << 41) + id as u64);
    }
}

/// Builder subset.
#[derive(Default, Debug)]
pub struct Builder {
    name: Option<String>,
}

impl Builder {
    pub fn new() -> Builder {
        Builder { name: None }
    }
    pub fn name(mut self, n: String) -> Builder {
        self.name = Some(n);
        self
    }
    pub fn stack_size(self, _s: usize) -> Builder {
        self
    }
    pub fn spawn<F, T>(self, f: F) -> std::io::Result<JoinHandle<T>>
    where
        F: FnOnce() -> T + Send + 'static,
        T: Send + 'static,
    {
        // a thread named by the code under test is still "anonymous" for the scheduler classes
        Ok(spawn_inner(None, f))
    }
}
