//! Tracer calls for the one unsafe cell in the workspace (cadence-macros/src/state.rs): each
//! access is a scheduling point and is reported to the happens-before tracker.

use crate::kernel;

pub fn on_write<T>(ptr: *const T) {
    let loc = ptr as usize as u64;
    if let Some((k, me)) = kernel::current() {
        k.yield_point(me, || "cell.write".to_string(), &[0x30]);
        k.with_hb(|h| h.on_cell_write(me, loc));
    }
}

pub fn on_read<T>(ptr: *const T) {
    let loc = ptr as usize as u64;
    if let Some((k, me)) = kernel::current() {
        k.yield_point(me, || "cell.read".to_string(), &[0x31]);
        k.with_hb(|h| h.on_cell_read(me, loc));
    }
}
