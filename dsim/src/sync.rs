//! Pass-through shims for `std::sync::{Mutex, atomic::*}`: the real primitive does the work, the
//! kernel decides who runs and owns all waiting.

use crate::kernel::{self, Wake};
use std::ops::{Deref, DerefMut};
use std::sync::atomic::AtomicU64 as StdAtomicU64;
pub use std::sync::{Arc, LockResult, PoisonError, TryLockError, TryLockResult, Weak};

pub struct Mutex<T: ?Sized> {
    id: StdAtomicU64,
    inner: std::sync::Mutex<T>,
}

pub struct MutexGuard<'a, T: ?Sized + 'a> {
    g: Option<std::sync::MutexGuard<'a, T>>,
    res: u64,
}

impl<T> Mutex<T> {
    pub const fn new(t: T) -> Mutex<T> {
        Mutex { id: StdAtomicU64::new(0), inner: std::sync::Mutex::new(t) }
    }

    pub fn into_inner(self) -> LockResult<T> {
        self.inner.into_inner()
    }
}

impl<T: ?Sized> Mutex<T> {
    pub fn lock(&self) -> LockResult<MutexGuard<'_, T>> {
        let (k, me) = match kernel::current() {
            Some(c) => c,
            None => {
                return match self.inner.lock() {
                    Ok(g) => Ok(MutexGuard { g: Some(g), res: 0 }),
                    Err(p) => Err(PoisonError::new(MutexGuard { g: Some(p.into_inner()), res: 0 })),
                }
            }
        };
        let res = kernel::object_id(&self.id);
        loop {
            k.yield_point(me, || format!("mutex#{res}.lock"), &[0x10, res]);
            match self.inner.try_lock() {
                Ok(g) => {
                    k.with_hb(|h| h.on_lock(me, res));
                    let guard = MutexGuard { g: Some(g), res };
                    kernel::post_effect();
                    return Ok(guard);
                }
                Err(TryLockError::Poisoned(p)) => {
                    k.with_hb(|h| h.on_lock(me, res));
                    return Err(PoisonError::new(MutexGuard { g: Some(p.into_inner()), res }));
                }
                Err(TryLockError::WouldBlock) => {
                    k.note_lock_wait(me);
                    if k.block_on(me, res, None, || format!("mutex#{res}.wait")) == Wake::Aborted {
                        // teardown while unwinding: fall back to the real lock
                        return match self.inner.lock() {
                            Ok(g) => Ok(MutexGuard { g: Some(g), res: 0 }),
                            Err(p) => Err(PoisonError::new(MutexGuard { g: Some(p.into_inner()), res: 0 })),
                        };
                    }
                }
            }
        }
    }

    pub fn try_lock(&self) -> TryLockResult<MutexGuard<'_, T>> {
        let res = kernel::object_id(&self.id);
        kernel::yield_now_with(|| format!("mutex#{res}.try_lock"), &[0x11, res]);
        match self.inner.try_lock() {
            Ok(g) => {
                if let Some((k, me)) = kernel::current() {
                    k.with_hb(|h| h.on_lock(me, res));
                }
                Ok(MutexGuard { g: Some(g), res })
            }
            Err(TryLockError::Poisoned(p)) => {
                if let Some((k, me)) = kernel::current() {
                    k.with_hb(|h| h.on_lock(me, res));
                }
                Err(TryLockError::Poisoned(PoisonError::new(MutexGuard { g: Some(p.into_inner()), res })))
            }
            Err(TryLockError::WouldBlock) => Err(TryLockError::WouldBlock),
        }
    }

    pub fn is_poisoned(&self) -> bool {
        self.inner.is_poisoned()
    }

    pub fn get_mut(&mut self) -> LockResult<&mut T> {
        self.inner.get_mut()
    }
}

impl<T: Default> Default for Mutex<T> {
    fn default() -> Self {
        Mutex::new(T::default())
    }
}

impl<T> From<T> for Mutex<T> {
    fn from(t: T) -> Self {
        Mutex::new(t)
    }
}

impl<T: ?Sized + std::fmt::Debug> std::fmt::Debug for Mutex<T> {
    fn fmt(&self, f: &mut std::fmt::Formatter<'_>) -> std::fmt::Result {
        self.inner.fmt(f)
    }
}

impl<T: ?Sized> Deref for MutexGuard<'_, T> {
    type Target = T;
    fn deref(&self) -> &T {
        self.g.as_ref().unwrap()
    }
}

impl<T: ?Sized> DerefMut for MutexGuard<'_, T> {
    fn deref_mut(&mut self) -> &mut T {
        self.g.as_mut().unwrap()
    }
}

impl<T: ?Sized> Drop for MutexGuard<'_, T> {
    fn drop(&mut self) {
        // release the real lock (this is where poisoning happens when unwinding), then let waiters retry
        self.g.take();
        if self.res != 0 {
            if let Some((k, me)) = kernel::current() {
                k.wake(self.res);
                let res = self.res;
                k.with_hb(|h| h.on_unlock(me, res));
                k.event(me, || format!("mutex#{res}.unlock"), &[0x12, res]);
                kernel::post_effect();
            }
        }
    }
}

impl<T: ?Sized + std::fmt::Debug> std::fmt::Debug for MutexGuard<'_, T> {
    fn fmt(&self, f: &mut std::fmt::Formatter<'_>) -> std::fmt::Result {
        (**self).fmt(f)
    }
}

pub mod atomic {
    use crate::kernel;
    pub use std::sync::atomic::Ordering;

    /// `std::sync::atomic::fence` as a scheduling point that the happens-before tracker sees.
    pub fn fence(o: Ordering) {
        kernel::yield_now_with(|| format!("fence({o:?})"), &[0x2F, ord_code(o)]);
        std::sync::atomic::fence(o);
        if let Some((k, me)) = kernel::current() {
            k.with_hb(|h| h.on_fence(me, o));
        }
        kernel::post_effect();
    }
    use std::sync::atomic::AtomicU64 as StdAtomicU64;

    fn ord_code(o: Ordering) -> u64 {
        match o {
            Ordering::Relaxed => 0,
            Ordering::Release => 1,
            Ordering::Acquire => 2,
            Ordering::AcqRel => 3,
            Ordering::SeqCst => 4,
            _ => 5,
        }
    }

    macro_rules! atomic_shim {
        ($name:ident, $std:ty, $prim:ty) => {
            pub struct $name {
                id: StdAtomicU64,
                inner: $std,
            }

            impl $name {
                pub const fn new(v: $prim) -> Self {
                    Self { id: StdAtomicU64::new(0), inner: <$std>::new(v) }
                }

                fn pre(&self, op: &'static str, code: u64, o: Ordering) -> u64 {
                    let id = kernel::object_id(&self.id);
                    kernel::yield_now_with(|| format!("atomic#{id}.{op}({o:?})"), &[0x20 + code, id, ord_code(o)]);
                    id
                }

                pub fn load(&self, o: Ordering) -> $prim {
                    let id = self.pre("load", 0, o);
                    let v = self.inner.load(o);
                    if let Some((k, me)) = kernel::current() {
                        k.with_hb(|h| h.on_load(me, id, o));
                    }
                    kernel::post_effect();
                    v
                }

                pub fn store(&self, v: $prim, o: Ordering) {
                    let id = self.pre("store", 1, o);
                    self.inner.store(v, o);
                    if let Some((k, me)) = kernel::current() {
                        k.with_hb(|h| h.on_store(me, id, o));
                    }
                    kernel::post_effect();
                }

                pub fn swap(&self, v: $prim, o: Ordering) -> $prim {
                    let id = self.pre("swap", 2, o);
                    let r = self.inner.swap(v, o);
                    if let Some((k, me)) = kernel::current() {
                        k.with_hb(|h| h.on_rmw(me, id, o));
                    }
                    kernel::post_effect();
                    r
                }

                pub fn compare_exchange(&self, cur: $prim, new: $prim, s: Ordering, f: Ordering) -> Result<$prim, $prim> {
                    let id = self.pre("cas", 3, s);
                    let r = self.inner.compare_exchange(cur, new, s, f);
                    if let Some((k, me)) = kernel::current() {
                        if r.is_err() {
                            k.note_cas_failure(me);
                        }
                        k.with_hb(|h| match r {
                            Ok(_) => h.on_rmw(me, id, s),
                            Err(_) => h.on_cas_fail(me, id, f),
                        });
                    }
                    kernel::post_effect();
                    r
                }

                /// May fail spuriously (one time in eight, decided from the run's seed and the step
                /// number): code that uses the weak form without a retry loop is wrong.
                pub fn compare_exchange_weak(&self, cur: $prim, new: $prim, s: Ordering, f: Ordering) -> Result<$prim, $prim> {
                    if kernel::coin(8) {
                        let id = self.pre("cas-weak-spurious", 3, f);
                        let v = self.inner.load(f);
                        if let Some((k, me)) = kernel::current() {
                            k.note_cas_failure(me);
                            k.with_hb(|h| h.on_cas_fail(me, id, f));
                        }
                        return Err(v);
                    }
                    self.compare_exchange(cur, new, s, f)
                }

                pub fn get_mut(&mut self) -> &mut $prim {
                    self.inner.get_mut()
                }

                pub fn into_inner(self) -> $prim {
                    self.inner.into_inner()
                }
            }

            impl Default for $name {
                fn default() -> Self {
                    Self::new(Default::default())
                }
            }

            impl std::fmt::Debug for $name {
                fn fmt(&self, f: &mut std::fmt::Formatter<'_>) -> std::fmt::Result {
                    self.inner.fmt(f)
                }
            }

            impl From<$prim> for $name {
                fn from(v: $prim) -> Self {
                    Self::new(v)
                }
            }
        };
    }

    macro_rules! atomic_int_ops {
        ($name:ident, $prim:ty) => {
            impl $name {
                pub fn fetch_add(&self, v: $prim, o: Ordering) -> $prim {
                    let id = self.pre("fetch_add", 4, o);
                    let r = self.inner.fetch_add(v, o);
                    if let Some((k, me)) = kernel::current() {
                        k.with_hb(|h| h.on_rmw(me, id, o));
                    }
                    kernel::post_effect();
                    r
                }

                pub fn fetch_sub(&self, v: $prim, o: Ordering) -> $prim {
                    let id = self.pre("fetch_sub", 5, o);
                    let r = self.inner.fetch_sub(v, o);
                    if let Some((k, me)) = kernel::current() {
                        k.with_hb(|h| h.on_rmw(me, id, o));
                    }
                    kernel::post_effect();
                    r
                }

                pub fn fetch_max(&self, v: $prim, o: Ordering) -> $prim {
                    let id = self.pre("fetch_max", 6, o);
                    let r = self.inner.fetch_max(v, o);
                    if let Some((k, me)) = kernel::current() {
                        k.with_hb(|h| h.on_rmw(me, id, o));
                    }
                    kernel::post_effect();
                    r
                }

                pub fn fetch_update<F: FnMut($prim) -> Option<$prim>>(&self, s: Ordering, f: Ordering, mut func: F) -> Result<$prim, $prim> {
                    let mut prev = self.load(f);
                    while let Some(next) = func(prev) {
                        match self.compare_exchange(prev, next, s, f) {
                            Ok(x) => return Ok(x),
                            Err(p) => prev = p,
                        }
                    }
                    Err(prev)
                }
            }
        };
    }

    atomic_shim!(AtomicU64, std::sync::atomic::AtomicU64, u64);
    atomic_shim!(AtomicUsize, std::sync::atomic::AtomicUsize, usize);
    atomic_shim!(AtomicU32, std::sync::atomic::AtomicU32, u32);
    atomic_shim!(AtomicI64, std::sync::atomic::AtomicI64, i64);
    atomic_shim!(AtomicBool, std::sync::atomic::AtomicBool, bool);
    atomic_int_ops!(AtomicU64, u64);
    atomic_int_ops!(AtomicUsize, usize);
    atomic_int_ops!(AtomicU32, u32);
    atomic_int_ops!(AtomicI64, i64);

    impl AtomicBool {
        pub fn fetch_or(&self, v: bool, o: Ordering) -> bool {
            let id = self.pre("fetch_or", 7, o);
            let r = self.inner.fetch_or(v, o);
            if let Some((k, me)) = kernel::current() {
                k.with_hb(|h| h.on_rmw(me, id, o));
            }
            kernel::post_effect();
            r
        }

        pub fn fetch_and(&self, v: bool, o: Ordering) -> bool {
            let id = self.pre("fetch_and", 8, o);
            let r = self.inner.fetch_and(v, o);
            if let Some((k, me)) = kernel::current() {
                k.with_hb(|h| h.on_rmw(me, id, o));
            }
            kernel::post_effect();
            r
        }
    }
}
