//! Vector-clock happens-before tracker for C18. The simulated execution itself is sequentially
//! consistent (one task at a time), so it always *returns* the right values; what this tracker
//! decides is whether the orderings written in the source would also order the unsafe cell's
//! accesses under the C11/Rust memory model.
//!
//! Rules implemented: release stores and release RMWs publish the thread's clock on the location;
//! a relaxed store ends the release sequence; RMWs of any ordering continue it; acquire loads,
//! acquire RMWs and failed CAS with an acquire failure ordering join the published clock;
//! fences: a release fence makes every later store / RMW of that thread (of any ordering) publish
//! the clock the thread had at the fence; what a relaxed load (or relaxed RMW, or failed CAS) read
//! is remembered per thread and joined at its next acquire fence; a SeqCst fence is both;
//! unlock / lock of a simulated mutex are a release / acquire on the mutex; spawn and join edges.

use std::collections::BTreeMap;
use std::sync::atomic::Ordering;

#[derive(Clone, Debug, Default)]
pub struct HbStats {
    pub atomic_ops: u64,
    pub acquire_joins: u64,
    pub cell_reads: u64,
    pub cell_writes: u64,
    pub cas_fail: u64,
    pub fences: u64,
    pub lock_edges: u64,
}

#[derive(Clone, Debug)]
struct Epoch {
    task: usize,
    at: u32,
}

#[derive(Clone, Debug, Default)]
struct CellState {
    last_write: Option<Epoch>,
    reads: Vec<Epoch>,
}

#[derive(Clone, Debug)]
pub struct HbTracker {
    clocks: Vec<Vec<u32>>,
    rel: BTreeMap<u64, Vec<u32>>,
    cells: BTreeMap<u64, CellState>,
    /// per task: its clock at its last release fence
    rel_fence: Vec<Option<Vec<u32>>>,
    /// per task: what its loads so far have read (joined into its clock by an acquire fence)
    acq_pending: Vec<Vec<u32>>,
    pub violations: Vec<String>,
    pub stats: HbStats,
}

fn join_into(a: &mut Vec<u32>, b: &[u32]) {
    if a.len() < b.len() {
        a.resize(b.len(), 0);
    }
    for (i, v) in b.iter().enumerate() {
        if a[i] < *v {
            a[i] = *v;
        }
    }
}

fn is_acquire(o: Ordering) -> bool {
    matches!(o, Ordering::Acquire | Ordering::AcqRel | Ordering::SeqCst)
}

fn is_release(o: Ordering) -> bool {
    matches!(o, Ordering::Release | Ordering::AcqRel | Ordering::SeqCst)
}

impl Default for HbTracker {
    fn default() -> Self {
        Self::new()
    }
}

impl HbTracker {
    pub fn new() -> HbTracker {
        HbTracker { clocks: Vec::new(), rel: BTreeMap::new(), cells: BTreeMap::new(), rel_fence: Vec::new(), acq_pending: Vec::new(), violations: Vec::new(), stats: HbStats::default() }
    }

    fn ensure(&mut self, t: usize) {
        while self.clocks.len() <= t {
            let n = self.clocks.len();
            let mut c = vec![0u32; n + 1];
            c[n] = 1;
            self.clocks.push(c);
        }
        if self.clocks[t].len() <= t {
            self.clocks[t].resize(t + 1, 0);
        }
        if self.clocks[t][t] == 0 {
            self.clocks[t][t] = 1;
        }
        while self.rel_fence.len() <= t {
            self.rel_fence.push(None);
        }
        while self.acq_pending.len() <= t {
            self.acq_pending.push(Vec::new());
        }
    }

    fn tick(&mut self, t: usize) {
        self.ensure(t);
        self.clocks[t][t] += 1;
    }

    fn knows(&self, t: usize, e: &Epoch) -> bool {
        if e.task == t {
            return true;
        }
        self.clocks.get(t).and_then(|c| c.get(e.task)).map(|v| *v >= e.at).unwrap_or(false)
    }

    pub fn on_spawn(&mut self, parent: Option<usize>, child: usize) {
        self.ensure(child);
        if let Some(p) = parent {
            self.ensure(p);
            let pc = self.clocks[p].clone();
            join_into(&mut self.clocks[child], &pc);
            self.tick(p);
        }
    }

    pub fn on_exit(&mut self, _t: usize) {}

    pub fn on_join(&mut self, joiner: usize, joined: usize) {
        self.ensure(joiner);
        self.ensure(joined);
        let jc = self.clocks[joined].clone();
        join_into(&mut self.clocks[joiner], &jc);
    }

    pub fn on_load(&mut self, t: usize, loc: u64, ord: Ordering) {
        self.ensure(t);
        self.stats.atomic_ops += 1;
        if let Some(r) = self.rel.get(&loc).cloned() {
            if is_acquire(ord) {
                join_into(&mut self.clocks[t], &r);
                self.stats.acquire_joins += 1;
            } else {
                // a later acquire fence of this thread synchronises with the release it read from
                join_into(&mut self.acq_pending[t], &r);
            }
        }
    }

    pub fn on_store(&mut self, t: usize, loc: u64, ord: Ordering) {
        self.ensure(t);
        self.stats.atomic_ops += 1;
        if is_release(ord) {
            self.rel.insert(loc, self.clocks[t].clone());
        } else if let Some(f) = self.rel_fence[t].clone() {
            // relaxed store after a release fence: publishes what the thread knew at the fence
            self.rel.insert(loc, f);
        } else {
            self.rel.remove(&loc);
        }
        self.tick(t);
    }

    pub fn on_rmw(&mut self, t: usize, loc: u64, ord: Ordering) {
        self.ensure(t);
        self.stats.atomic_ops += 1;
        if let Some(r) = self.rel.get(&loc).cloned() {
            if is_acquire(ord) {
                join_into(&mut self.clocks[t], &r);
                self.stats.acquire_joins += 1;
            } else {
                join_into(&mut self.acq_pending[t], &r);
            }
        }
        if is_release(ord) {
            let mine = self.clocks[t].clone();
            let e = self.rel.entry(loc).or_default();
            join_into(e, &mine);
        } else if let Some(f) = self.rel_fence[t].clone() {
            let e = self.rel.entry(loc).or_default();
            join_into(e, &f);
        }
        self.tick(t);
    }

    pub fn on_fence(&mut self, t: usize, ord: Ordering) {
        self.ensure(t);
        self.stats.fences += 1;
        if is_acquire(ord) {
            let p = self.acq_pending[t].clone();
            if !p.is_empty() {
                join_into(&mut self.clocks[t], &p);
                self.stats.acquire_joins += 1;
            }
        }
        if is_release(ord) {
            self.rel_fence[t] = Some(self.clocks[t].clone());
        }
        self.tick(t);
    }

    /// Unlock of a simulated mutex: a release on the mutex.
    pub fn on_unlock(&mut self, t: usize, res: u64) {
        self.ensure(t);
        self.stats.lock_edges += 1;
        self.rel.insert(res | (1u64 << 62), self.clocks[t].clone());
        self.tick(t);
    }

    /// Successful lock of a simulated mutex: an acquire on the mutex.
    pub fn on_lock(&mut self, t: usize, res: u64) {
        self.ensure(t);
        if let Some(r) = self.rel.get(&(res | (1u64 << 62))).cloned() {
            join_into(&mut self.clocks[t], &r);
            self.stats.acquire_joins += 1;
        }
    }

    pub fn on_cas_fail(&mut self, t: usize, loc: u64, fail_ord: Ordering) {
        self.stats.cas_fail += 1;
        self.on_load(t, loc, fail_ord);
    }

    pub fn on_cell_write(&mut self, t: usize, loc: u64) {
        self.ensure(t);
        self.stats.cell_writes += 1;
        let cs = self.cells.get(&loc).cloned().unwrap_or_default();
        if let Some(w) = &cs.last_write {
            if !self.knows(t, w) {
                self.violations.push(format!("cell#{loc}: write by task {t} is not ordered after the earlier write by task {} (write/write race)", w.task));
            }
        }
        for r in &cs.reads {
            if !self.knows(t, r) {
                self.violations.push(format!("cell#{loc}: write by task {t} is not ordered after a read by task {} (read/write race)", r.task));
            }
        }
        let at = self.clocks[t][t];
        self.cells.insert(loc, CellState { last_write: Some(Epoch { task: t, at }), reads: Vec::new() });
    }

    pub fn on_cell_read(&mut self, t: usize, loc: u64) {
        self.ensure(t);
        self.stats.cell_reads += 1;
        let cs = self.cells.get(&loc).cloned().unwrap_or_default();
        if let Some(w) = &cs.last_write {
            if !self.knows(t, w) {
                self.violations.push(format!("cell#{loc}: read by task {t} does not happen-after the initialising write by task {} (data race)", w.task));
            }
        }
        let at = self.clocks[t][t];
        let e = self.cells.entry(loc).or_default();
        e.reads.push(Epoch { task: t, at });
    }
}
