use cadence_dsim::channel;
use cadence_dsim::kernel::{self, KConfig, Kernel, Strategy, TState};
use cadence_dsim::sync::atomic::{AtomicU64, Ordering};
use cadence_dsim::sync::Mutex;
use cadence_dsim::thread;
use std::sync::Arc;

fn scenario(seed: u64, strat: Strategy) -> (u64, Vec<u32>, Vec<String>, u64) {
    let r = Kernel::run(KConfig::new(seed, strat), move || {
        let log = Arc::new(Mutex::new(Vec::<String>::new()));
        let ctr = Arc::new(AtomicU64::new(0));
        let (tx, rx) = channel::bounded::<String>(2);
        let mut hs = vec![];
        for p in 0..3 {
            let tx = tx.clone();
            let ctr = ctr.clone();
            hs.push(thread::spawn_named(&format!("p{p}"), move || {
                for i in 0..4 {
                    ctr.fetch_add(1, Ordering::SeqCst);
                    tx.send(format!("p{p}.{i}")).unwrap();
                }
            }));
        }
        drop(tx);
        let log2 = log.clone();
        let c = thread::spawn(move || {
            for m in rx.iter() {
                log2.lock().unwrap().push(m);
            }
        });
        for h in hs {
            h.join().unwrap();
        }
        c.join().unwrap();
        let v = log.lock().unwrap().clone();
        (v, ctr.load(Ordering::SeqCst))
    });
    assert!(r.error.is_none(), "{:?}", r.error);
    let (v, c) = r.main.unwrap();
    assert_eq!(c, 12);
    assert_eq!(v.len(), 12);
    assert!(r.tasks.iter().all(|t| t.state == TState::Finished));
    (r.trace_hash, r.schedule, v, r.steps)
}

#[test]
fn deterministic_and_diverse() {
    kernel::install_quiet_panic_hook();
    let mut orders = std::collections::BTreeSet::new();
    for seed in 0..200u64 {
        let strat = match seed % 4 {
            0 => Strategy::Uniform,
            1 => Strategy::Pct { depth: 3, horizon: 100 },
            2 => Strategy::Bursty { mean: 5 },
            _ => Strategy::StarveAnon,
        };
        let a = scenario(seed, strat.clone());
        let b = scenario(seed, strat);
        assert_eq!(a.0, b.0, "trace hash differs for seed {seed}");
        assert_eq!(a.1, b.1);
        assert_eq!(a.2, b.2);
        // replay from the recorded schedule alone
        let c = scenario(seed, Strategy::Replay(a.1.clone())); // (the seed also decides whether after-effect points are scheduling points)
        assert_eq!(a.0, c.0, "replay differs for seed {seed}");
        assert_eq!(a.2, c.2);
        orders.insert(a.2.join(","));
    }
    assert!(orders.len() > 50, "only {} distinct delivery orders", orders.len());
}

#[test]
fn blocked_forever_is_quiescence_not_hang() {
    kernel::install_quiet_panic_hook();
    let r = Kernel::run(KConfig::new(1, Strategy::Uniform), move || {
        let (tx, rx) = channel::unbounded::<String>();
        let keep = tx.clone();
        let h = thread::spawn(move || {
            let _keep = keep; // sender stays alive inside the receiver task: never disconnects
            for _m in rx.iter() {}
        });
        tx.send("x".into()).unwrap();
        drop(tx);
        kernel::wait_idle();
        let t = kernel::task_table();
        let _ = h;
        t.iter().map(|t| t.state.clone()).collect::<Vec<_>>()
    });
    assert!(r.error.is_none());
    let states = r.main.unwrap();
    assert_eq!(states.len(), 2);
    assert!(matches!(states[1], TState::Blocked { .. }));
    assert!(matches!(r.tasks[1].state, TState::Blocked { .. }));
}

#[test]
fn panic_in_task_unwinds_and_spawns_from_drop() {
    kernel::install_quiet_panic_hook();
    struct Respawn(Arc<AtomicU64>);
    impl Drop for Respawn {
        fn drop(&mut self) {
            if thread::panicking() {
                let c = self.0.clone();
                thread::spawn(move || {
                    c.fetch_add(10, Ordering::SeqCst);
                });
            }
        }
    }
    let r = Kernel::run(KConfig::new(7, Strategy::Uniform), move || {
        let c = Arc::new(AtomicU64::new(0));
        let c2 = c.clone();
        let h = thread::spawn(move || {
            let _g = Respawn(c2.clone());
            c2.fetch_add(1, Ordering::SeqCst);
            std::panic::resume_unwind(Box::new("boom"));
        });
        assert!(h.join().is_err());
        kernel::wait_idle();
        c.load(Ordering::SeqCst)
    });
    assert_eq!(r.main, Some(11));
    assert_eq!(r.tasks.len(), 3);
    assert!(r.tasks[1].panicked.is_some());
    assert!(r.tasks[2].panicked.is_none());
}

#[test]
fn simulated_time() {
    let r = Kernel::run(KConfig::new(3, Strategy::Uniform), move || {
        let (tx, rx) = channel::bounded::<u8>(1);
        let h = thread::spawn(move || {
            thread::sleep(std::time::Duration::from_secs(3600));
            tx.send(1).unwrap();
        });
        let a = rx.recv_timeout(std::time::Duration::from_secs(60));
        let b = rx.recv_timeout(std::time::Duration::from_secs(7200));
        h.join().unwrap();
        (a.is_err(), b.ok())
    });
    assert_eq!(r.main, Some((true, Some(1))));
    assert!(r.now >= 3600 * 1_000_000_000);
}

#[test]
fn polling_worker_does_not_starve_idle_waiters_or_quiescence() {
    use std::time::Duration;
    kernel::install_quiet_panic_hook();
    let r = Kernel::run(KConfig::new(5, Strategy::Uniform), move || {
        let (tx, rx) = channel::unbounded::<u32>();
        let keep = tx.clone();
        let got = Arc::new(AtomicU64::new(0));
        let g2 = got.clone();
        // a worker that polls with a timeout and never terminates (its own sender keeps the channel open)
        thread::spawn(move || {
            let _keep = keep;
            loop {
                match rx.recv_timeout(Duration::from_millis(100)) {
                    Ok(v) => {
                        g2.fetch_add(v as u64, Ordering::SeqCst);
                    }
                    Err(channel::RecvTimeoutError::Timeout) => continue,
                    Err(channel::RecvTimeoutError::Disconnected) => break,
                }
            }
        });
        tx.send(5).unwrap();
        tx.send(7).unwrap();
        kernel::wait_idle();
        let a = got.load(Ordering::SeqCst);
        tx.send(1).unwrap();
        kernel::wait_idle();
        (a, got.load(Ordering::SeqCst))
    });
    assert!(r.error.is_none(), "{:?}", r.error);
    assert_eq!(r.main, Some((12, 13)));
    assert!(matches!(r.tasks[1].state, TState::Blocked { .. }));
    assert!(r.now > 0);
}

/// The happens-before tracker must not be stricter than the memory model: a cell published with
/// `fence(Release); store(Relaxed)` and consumed with `load(Relaxed); fence(Acquire)` is race-free;
/// the same without the fences is a race; a cell handed over under a simulated mutex is race-free.
#[test]
fn hb_tracker_knows_fences_and_mutexes() {
    use cadence_dsim::sync::atomic::{fence, AtomicUsize, Ordering};
    use cadence_dsim::sync::Mutex;
    use std::sync::Arc;
    fn run(with_fences: bool, via_mutex: bool, seed: u64) -> Vec<String> {
        let mut kc = KConfig::new(seed, Strategy::Uniform);
        kc.hb = true;
        let r = Kernel::run(kc, move || {
            let flag = Arc::new(AtomicUsize::new(0));
            let cell = Arc::new(std::cell::UnsafeCell::new(0u64));
            struct SendPtr(Arc<std::cell::UnsafeCell<u64>>);
            unsafe impl Send for SendPtr {}
            let m = Arc::new(Mutex::new(false));
            let (f2, c2, m2) = (flag.clone(), SendPtr(cell.clone()), m.clone());
            let h = cadence_dsim::thread::spawn(move || {
                let c2 = c2;
                if via_mutex {
                    let mut g = m2.lock().unwrap();
                    cadence_dsim::cell::on_write(c2.0.get());
                    *g = true;
                } else {
                    cadence_dsim::cell::on_write(c2.0.get());
                    if with_fences {
                        fence(Ordering::Release);
                    }
                    f2.store(1, Ordering::Relaxed);
                }
            });
            // reader (main): spins until published
            loop {
                let seen = if via_mutex { *m.lock().unwrap() } else { flag.load(Ordering::Relaxed) == 1 };
                if seen {
                    if with_fences && !via_mutex {
                        fence(Ordering::Acquire);
                    }
                    cadence_dsim::cell::on_read(cell.get());
                    break;
                }
                cadence_dsim::thread::sleep(std::time::Duration::from_nanos(1));
            }
            drop(h);
        });
        assert!(r.error.is_none(), "{:?}", r.error);
        r.hb_violations
    }
    for seed in 0..40 {
        assert!(run(true, false, seed).is_empty(), "fences: false race reported (seed {seed})");
        assert!(run(false, true, seed).is_empty(), "mutex: false race reported (seed {seed})");
        assert!(!run(false, false, seed).is_empty(), "relaxed without fences must be reported (seed {seed})");
    }
}
