#!/usr/bin/env python3
"""Turns the log of a refactor run (=== <seeded dir>, 'repo suite: passed=.. failed=..',
'  Cxx exit=N note' lines) into sensitivity/refactors.json. usage: ref_results.py <log>"""
import json, re, sys
res = {}; cur = None
for l in open(sys.argv[1]):
    l = l.rstrip('\n')
    m = re.match(r'=== (\S+)', l)
    if m:
        cur = m.group(1); res[cur] = {"checks": {}, "repo_suite": {}}; continue
    m = re.match(r'repo suite: passed=(\d+) failed=(\d+)', l)
    if m and cur:
        res[cur]["repo_suite"] = {"passed": int(m.group(1)), "failed": int(m.group(2))}; continue
    m = re.match(r'\s+(C\d+) exit=(\d+) ?(.*)', l)
    if m and cur:
        res[cur]["checks"][m.group(1)] = {"exit": int(m.group(2)), "note": m.group(3).strip()}
json.dump(res, open('/verif/sensitivity/refactors.json', 'w'), indent=1)
print({k: sorted(set(v['exit'] for v in r['checks'].values())) for k, r in res.items()})
