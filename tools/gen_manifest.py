#!/usr/bin/env python3
"""Regenerates /verif/MANIFEST.json from the table below (single source of truth for the
interface). Run after adding or changing a check."""
import json, subprocess

NA = [
 ("C01", "pure function of call arguments and client configuration: no schedule, clock, fault or history enters the emitted text, so deterministic simulation has nothing to decide (DESIGN.md section 6)"),
 ("C02", "numeral rendering and the Duration overflow boundary are pure functions of one value (DESIGN.md section 6)"),
 ("C04", "which tags/container id a line carries is a pure function of client configuration and call arguments (DESIGN.md section 6)"),
]

SOCK = "sockets are in-memory stubs with an injectable result per send; underlying writes are all-or-nothing (datagram semantics), short writes are not injected"
SIMNOTE = "trusted base: the dsim kernel (one task runs at a time, so executions are sequentially consistent), the pass-through shims for Mutex/atomics/crossbeam/thread added under cfg(cadence_verif), and the oracle code; sampling, not proof"

CHECKS = {
 "C05": ("linebuf", "E2", "5.2", "seeded simulation of emit/flush/drop histories against an observation-driven reference model of line packing, checked on every underlying write",
         "Seeded exploration: ~10^5 (quick) to ~10^7 (thorough) histories (three quarters fault-free, a quarter with refused writes, on which the framing clauses are judged too) over 4 construction routes x capacities (0,1,exact-fit,default 512,...) x terminators, lengths aimed at the current fill boundary; every underlying write must be an in-order run of complete lines within capacity or one oversize metric alone. A clean batch is evidence, not proof.", SOCK),
 "C06": ("linebuf+queue", "E2+E3", "5.2", "seeded simulation of emit/flush/drop histories; conservation and order checked against a reference model at every flush and at drop; plus seeded schedule search with a real buffered sink behind a QueuingMetricSink and flush() through the queuing handle concurrent with the worker",
         "Seeded exploration of histories (three quarters fault-free, a quarter with refused writes for the conservation clauses); acknowledged metrics must be written exactly once, in order, by the next successful flush or the drop; flushing again writes nothing; results must be Ok(len). E3: a flush through a queuing handle that returns Ok means every metric the buffered sink had accepted before the flush was invoked is on the wire.", SOCK),
 "C07": ("linebuf", "E2", "5.2", "seeded fault injection on every attempted underlying write (single-fault sweep over every attempt of sampled histories + random multi-fault with consecutive retries), judged by the same reference model in fault mode",
         "Seeded fault-injecting exploration: each attempted underlying write may fail with any io::ErrorKind (incl. Interrupted, retried by BufWriter); results must be Ok or the socket's own error, refused metrics never appear later, accepted ones stay buffered and leave exactly once, unsplit and in order; no panic. A separate configuration also fails the writer's own flush().", SOCK),
 "C19": ("linebuf+sockets", "E2+E5", "5.2", "seeded simulation; strict layer of the reference model: each write must happen in the call greedy in-order packing predicts and carry everything buffered; plus seeded schedule search over 1-4 emitter threads sharing a buffered socket sink, every datagram sent during an emit judged for necessity",
         "Seeded exploration of histories (four fifths fault-free; a fifth with refused writes, judged by a prefix rule) biased to exact-fit / one-byte-short boundaries; the shape of the writes of every call must equal what greedy in-order packing allows (exact-fill writes tolerated as the property states), plus an independent comparison of datagram sizes with the greedy packing of the emitted lengths. On buffered UDP/Unix sinks shared by 1-4 simulated threads (E5): a datagram that leaves during an emit and does not carry that emit's metric must have been too full to take it.", SOCK),
}

QNOTE = "the wrapped sink is scripted (ok / io error / panic / slow / stall on a gate per invocation); crossbeam's blocking paths are replaced by simulated waiting on the real queue; capacity 0 (rendezvous, hand-modelled) is judged for everything except C10's occupancy clauses"
CHECKS.update({
 "C08": ("queue", "E3", "5.3", "seeded schedule search over producers x worker interleavings with a scripted wrapped sink; delivered log must equal the channel-acceptance order at quiescence",
         "Seeded exploration (uniform / PCT / bursty / starve-worker / favour-worker schedulers) of histories of emit, clone and drop on several handles from 1-4 caller tasks against the real QueuingMetricSink worker; at quiescence after faults stop, the strings handed to the wrapped sink must equal, as a sequence, the strings accepted by the queue (exactly once, acceptance order, one at a time).", QNOTE),
 "C09": ("queue", "E3", "5.3", "seeded schedule search with drop timing and queue occupancy varied (starve-worker scheduler, stalls); termination and release of the wrapped sink judged at quiescence",
         "Seeded exploration of the last drop at every occupancy 0..=capacity (incl. completely full), by main or by a producer task, with the worker running, starved or stalled inside the wrapped sink; after gates open the run must reach quiescence with everything delivered, every background task finished, the wrapped sink dropped exactly once, and no drop ever blocking or panicking; long backlogs (70-150 queued) with panic storms of 9-65 consecutive panics in front of accepted metrics.", QNOTE),
 "C10": ("queue", "E3", "5.3", "seeded schedule search with the wrapped sink stalled on a gate; emit judged by own-step count, blocked-state count and the channel trace",
         "Seeded exploration with the worker stalled, slow, failing or panicking: emit must never enter a blocked state, take a bounded number of its own steps, return Ok(len) exactly when the channel trace shows room and an error only when the queue holds as many METRICS as the capacity given to the constructor (never exceeded; flushes through a handle and whatever else a variant puts on the channel take no room), never run the wrapped sink on a caller task, and no wrapped-sink error or panic may reach a caller.", QNOTE),
 "C11": ("queue", "E3", "5.3", "seeded schedule search with injected panics (real unwinding through WorkerCore::run into Sentinel::drop, which respawns under the scheduler)",
         "Seeded exploration of ok/error/panic assignments incl. consecutive panics, first/last queued and panics after the last drop: delivery must still equal acceptance order exactly once, the sink keeps accepting, and panics() equals the number of injected panics at quiescent points.", QNOTE),
 "C15": ("queue", "E3", "5.3", "seeded schedule search with a concurrent sampler task; counters compared with the harness's own counts at quiescent points",
         "Seeded exploration: at harness-made quiescent points submitted/drained/queued must equal the number of Ok emits, wrapped-sink invocations and their difference; a sampler task reads queued() then submitted() at arbitrary interleavings (incl. the worker overtaking the producer's bookkeeping) and must see 0 <= queued <= submitted.", QNOTE),
 "C16": ("queue", "E3", "5.3", "seeded schedule search over Ok/Err patterns with and without a handler; merged log of wrapped-sink calls and handler calls",
         "Seeded exploration: for every queued metric whose wrapped-sink call failed, exactly one handler call with that error (kind and message), on the same background task, before the next metric; none for accepted metrics (incl. Ok(0)), none for a wrapped sink whose flush fails while its backend is down; none at all without a handler.", QNOTE),
})

SNOTE = "UDP and Unix datagram sockets are in-memory stubs (ledger of destination, payload, result; injectable result per send incl. EAGAIN, ECONNREFUSED, ENOBUFS, EINTR, ENOENT, EMSGSIZE, and a full buffer that blocks a blocking-mode sender); the real kernel socket is not exercised"
CHECKS.update({
 "C12": ("sockets", "E5", "5.4", "seeded schedule search over 2-4 emitter tasks sharing one Arc<StatsdClient> over a buffered sink; stream oracle on the merged datagram stream plus a flush barrier",
         "Seeded exploration of interleavings (scheduling points at lock, socket send, stats atomics, channel send - also while the lock is held - and, in a third of the runs, right after the effect of each of them and after unlock): every datagram is whole lines within capacity or one oversize metric alone, every Ok-acknowledged metric is on the wire exactly once by the final drop and already when a later flush returns Ok, each task's buffered metrics leave in program order. A quarter of the runs also refuse sends (a failed flush of one thread must not damage what another thread emits next); buffers from 0 to 131072 bytes, metric lengths aimed at exact fits of what the buffer nominally holds.", SNOTE),
 "C13": ("sockets", "E5", "5.5", "seeded simulation of the socket sinks over a stub socket ledger: per-emit datagram matching for unbuffered sinks, the E2 reference model for buffered ones",
         "Seeded exploration over constructor address forms, blocking modes, metric strings (multi-byte UTF-8, blanks at the edges, embedded newlines, 0..65507 bytes and one over), capacities and send results: one datagram per emit with exactly the metric's bytes to the constructed destination and the socket's own result; buffered sinks follow the C05 model with a single newline (metrics with blanks at the edges included: nothing is trimmed) and send the rest on flush and drop; the framing of every datagram is judged after refused sends too, with metric lengths aimed at exact fits of what is held behind a flush that may have failed.", SNOTE),
 "C14": ("sockets", "E5", "5.5", "seeded schedule search with 1-4 concurrent emitters and injected send failures; stats() compared with the socket ledger at quiescent points, also through a queuing wrapper",
         "Seeded exploration: at every quiescent point packets_sent+packets_dropped equals the send attempts in the ledger, bytes_sent/bytes_dropped equal the accepted/refused sizes, and for unbuffered sinks the Ok/Err emit results; yield points before every counter update expose a read-modify-write split; the same figures must be read through QueuingMetricSink::stats(); metrics beyond the UDP datagram limit on the unbuffered sink must be counted as dropped.", SNOTE),
})

CHECKS.update({
 "C18": ("holder", "E6", "5.6", "seeded schedule search over set/get/is_set on a fresh SingletonHolder with every atomic operation and both cell accesses as scheduling points; write-once-register oracle + vector-clock happens-before tracker using the orderings written in the source; Miri many-seeds as second opinion in the thorough tier",
         "Seeded exploration with 2-4 tasks incl. two racing setters and readers inside the LOADING window: all reads return 'not set' or one identical, intact winner; the first completed set wins; reads invoked after it returned report set; and every read of the unsafe cell must happen-after the initialising write under the C11 rules (release sequences, acquire loads/RMWs, failed-CAS orderings, release/acquire fences, lock edges of hooked mutexes, spawn and join edges) even though the simulated run itself is sequentially consistent. Thorough tier adds the unhooked code under Miri (weak-memory emulation + data-race detector), independent of the tracker.",
         "trusted base: the happens-before tracker in dsim/src/hb.rs (not a full C11 model: no consume, SeqCst treated as AcqRel, no total order of SeqCst operations), the two tracer calls placed next to the raw-pointer dereferences; Miri for the second opinion"),
})

CHECKS.update({
 "C03": ("sinkfault+sharedclient", "E1+E8", "5.1", "seeded fault injection on the client's sink (accept / refuse with any io::ErrorKind per emit, single-fault sweep over every emit position of sampled histories) across sequences of calls on one client; plus seeded schedule search over one client shared by 2-4 simulated caller threads with scheduling points inside the sink and the error handler",
         "Seeded exploration over all 22 (kind x value type) entry points + incr/decr x 3 call forms x valid/invalid values (Duration overflow boundary in u128 arithmetic of the harness, alone or at any index of a packed list) x sink answers: one emit iff valid, Ok(metric) only with an accepted emit of exactly that text, the sink's own io::Error carried as source, InvalidInput for rejected values, quiet form never fails and calls the handler exactly once per failure. E8 repeats the per-call oracle per calling thread while other threads are suspended inside the sink or inside the handler: each thread's call hands over exactly its own metric, its result / handler invocation is about exactly that metric, the handler runs on the calling thread once per failed quiet send, and nothing is emitted or reported outside a call.",
         "the client's sink and error handler are scripted/recording; the text of the line is not compared with a formatter model (C01/C04 are not applicable to this technique); in E8 the only scheduling points are inside the sink and the handler (client.rs itself contains no synchronisation to hook)"),
})

CHECKS.update({
 "C17": ("macroproc", "E7", "5.7", "one fresh process per seeded history {macros while unset, set, second set, macros after, then 2-3 simulated threads using the macros concurrently while another thread sets again} x fault script x schedule; differential against the explicit tagged quiet call on a twin client",
         "Claimed narrowly. Seeded exploration with one child process per case (the global client is process-wide and set-once): every macro panics while unset and nothing is sent; after set_global_default(A) a second set is ignored for ever; each invocation from a compiled-in matrix (22 macro/value-type combinations x 0..3 tags, runtime strings and values incl. overflowing Durations) must hand A's sink exactly what `twin.<kind>_with_tags(k, v).with_tag(..).send()` hands the twin's, report failures only to A's handler exactly as the twin's, evaluate instrumented argument expressions once, and never panic once set.",
         "most of C17 is a statement about macro expansion, i.e. about inputs; only the history dimension is simulation; the argument matrix is finite and compiled in; sinks are scripted"),
 "C20": ("all", "all", "5.8", "all seven simulation engines with hostile-value generators, overflow checks and debug assertions on, catch_unwind at every API call and task root; only un-injected panics are reported",
         "Claimed partially. The history- and fault-dependent part (capacity - written after failed flushes, counters under every interleaving, lock().unwrap() after a panic elsewhere, unwinding through the worker and its sentinel) is decided by simulation; the pure-argument part (size hints, casts, formatting of extreme values) is merely exercised by the generators and reported as such.",
         "sum of the trusted bases of the seven engines; huge capacities and allocation failure are outside every generator"),
})

def main():
    hooks_commits = subprocess.run("git -C /repo log --format=%H --grep='^verif hooks'", shell=True, capture_output=True, text=True).stdout.split()
    checks = []
    for pid in sorted(CHECKS):
        eng, ename, ref, tech, text, note = CHECKS[pid]
        checks.append({
            "property_id": pid,
            "quick_cmd": f"./check {pid} --tier quick",
            "thorough_cmd": f"./check {pid} --tier thorough",
            "evidence_file": f"evidence/{pid}.json",
            "replay_cmd_template": f"./check {pid} --replay {{path}}",
            "engine": eng.split("+")[0],
            "level_claimed": {"category": "exploration", "text": text, "design_ref": f"DESIGN.md section {ref}"},
            "level_note": (note + "; single task, no scheduler involved; sampling, not proof") if eng in ("linebuf",) else (note + "; " + SIMNOTE),
            "technique": "deterministic simulation with fault injection: " + tech,
        })
    claimed = set(CHECKS)
    na = [{"property_id": p, "reason": r} for p, r in NA]
    allp = [json.loads(l)["id"] for l in open('/verif/properties.jsonl')]
    for p in allp:
        if p not in claimed and p not in [x[0] for x in NA]:
            na.append({"property_id": p, "reason": "check under construction in this round: not claimed yet (no technique limitation; see DESIGN.md section 1 for the planned engine)"})
    m = {
        "version": 1,
        "setup_cmd": "cd /verif/ws && CARGO_NET_OFFLINE=true cargo build --release --offline",
        "hooks": {
            "guard": "cadence_verif",
            "enable": "rustc --cfg cadence_verif, set in /verif/ws/.cargo/config.toml; /repo is built through shadow manifests (/verif/ws/shadow/*) whose [lib] path points at /repo's sources and which add the path dependency cadence_dsim",
            "baseline_off_cmd": "cd /repo && cargo nextest run --workspace --no-fail-fast --offline || cargo test --workspace --no-fail-fast --offline",
            "source_commits": hooks_commits,
            "add_only": True,
        },
        "engines": [
            {"name": "dsim", "path": "dsim/", "serves_properties": sorted(claimed), "kind_free_text": "simulation kernel (real threads, one runs at a time, seeded scheduler, quiescence detection, teardown) + pass-through shims"},
            {"name": "queue", "path": "ws/engines/src/e3.rs", "serves_properties": ["C06", "C08", "C09", "C10", "C11", "C15", "C16", "C20"], "kind_free_text": "E3: the real QueuingMetricSink (worker thread, sentinel respawn, crossbeam channel, counters) as simulated tasks against a scripted wrapped sink"},
            {"name": "sockets", "path": "ws/engines/src/e5.rs", "serves_properties": ["C12", "C13", "C14", "C19", "C20"], "kind_free_text": "E5: socket-backed sinks over simulated datagram sockets, 1-4 emitter tasks sharing a sink / client / queuing wrapper"},
            {"name": "holder", "path": "ws/engines/src/e6.rs", "serves_properties": ["C18", "C20"], "kind_free_text": "E6: SingletonHolder under simulated tasks with a happens-before tracker; miri-c18/ is the Miri second opinion"},
            {"name": "sinkfault", "path": "ws/engines/src/e1.rs", "serves_properties": ["C03", "C20"], "kind_free_text": "E1: StatsdClient over a scripted sink with a per-emit fault plan"},
            {"name": "sharedclient", "path": "ws/engines/src/e8.rs", "serves_properties": ["C03", "C20"], "kind_free_text": "E8: one StatsdClient shared by 2-4 simulated caller threads; sink answers per metric; scheduling points inside sink and error handler"},
            {"name": "macroproc", "path": "ws/engines/src/e7.rs", "serves_properties": ["C17", "C20"], "kind_free_text": "E7: one fresh child process per history for the process-global client; differential against a twin client; a concurrent phase runs the dsim kernel inside the child"},
            {"name": "linebuf", "path": "ws/engines/src/e2.rs", "serves_properties": ["C05", "C06", "C07", "C19", "C20"], "kind_free_text": "E2: histories of emit/flush/drop on the line-buffering writer and the buffered sinks with a per-write fault plan; reference model in ws/engines/src/linemodel.rs"},
        ],
        "checks": checks,
        "not_applicable": na,
        "notes": "Entry point: ./check <PROP> [--tier quick|thorough] | ./check <PROP> --replay FILE | ./check selftest. Exit 0 held / 1 VIOLATION / 2 harness error. VERIF_SEED and VERIF_TIER are honoured. Replay files are written to /verif/replays/.",
    }
    json.dump(m, open('/verif/MANIFEST.json', 'w'), indent=1)
    print("wrote MANIFEST.json with", len(checks), "checks;", len(na), "not claimed")

main()
