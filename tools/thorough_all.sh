#!/bin/bash
# Background thorough sweep against a snapshot of /repo (see `vp run --with-repo`). Results are NOT
# evidence; anything found here is re-run in /verif against /repo itself before it is recorded.
cd "$(dirname "$0")/.."
export VERIF_REPO="${VP_RUN_REPO:-/repo}"
# multi-engine checks (C03, C06, C19, C20) take their per-engine cap from here
export VERIF_MAX_WALL="${THOROUGH_WALL:-900}"
for p in C07 C08 C09 C11 C10 C15 C16 C12 C14 C13 C05 C06 C19 C18 C03 C17 C20; do
  echo "=== $p $(date +%T)"
  nice -n 10 ./check $p --tier thorough --no-evidence --no-miri --max-wall ${THOROUGH_WALL:-900} 2>&1 | grep -v "^  | " | tail -12
done
echo THOROUGH-DONE
