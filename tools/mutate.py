#!/usr/bin/env python3
"""Sensitivity runner: apply each deliberate breakage (mutant) to /repo's working tree, run the
checks of the properties it should break (and optionally others), revert. Never commits in /repo.

usage: mutate.py <mutants.json> [--only NAME[,NAME]] [--runs N] [--tests] [--props P1,P2]
mutants.json: [{"name":..., "file":..., "old":..., "new":..., "breaks":[...], "holds":[...], "note":...}]
"""
import json, subprocess, sys, os, time

def sh(cmd, **kw):
    kw.setdefault('timeout', 1500)
    try:
        return subprocess.run(cmd, shell=True, capture_output=True, text=True, **kw)
    except subprocess.TimeoutExpired as e:
        return subprocess.CompletedProcess(cmd, 2, stdout=(e.stdout or b'').decode() if isinstance(e.stdout, bytes) else (e.stdout or ''), stderr='TIMEOUT')

def main():
    args = sys.argv[1:]
    spec = json.load(open(args[0]))
    only = None; runs = None; tests = False; props_override = None; json_out = None
    i = 1
    while i < len(args):
        if args[i] == '--only': only = set(args[i+1].split(',')); i += 2
        elif args[i] == '--runs': runs = args[i+1]; i += 2
        elif args[i] == '--tests': tests = True; i += 1
        elif args[i] == '--props': props_override = args[i+1].split(','); i += 2
        elif args[i] == '--json': json_out = args[i+1]; i += 2
        else: i += 1
    st = sh('git -C /repo status --porcelain')
    if st.stdout.strip():
        print('refusing: /repo working tree is not clean'); sys.exit(2)
    results = []
    for m in spec:
        if only and m['name'] not in only: continue
        edits = m.get('edits') or ([] if m.get('patch') else [{'file': m['file'], 'old': m['old'], 'new': m['new']}])
        try:
            if m.get('patch'):
                r = sh(f"git -C /repo apply {os.path.join('/verif', m['patch'])}")
                if r.returncode != 0:
                    raise RuntimeError(f"{m['name']}: patch does not apply: {r.stderr}")
            for e in edits:
                path = os.path.join('/repo', e['file'])
                s = open(path).read()
                if s.count(e['old']) < 1:
                    raise RuntimeError(f"{m['name']}: pattern not found in {e['file']}: {e['old']!r}")
                s = s.replace(e['old'], e['new'], 1 if not e.get('all') else -1)
                open(path, 'w').write(s)
            row = {'name': m['name'], 'results': {}}
            if tests:
                # a mutant may make the repository's own suite hang (e.g. a blocking send): bound it
                t = sh('cd /repo && timeout -k 5 180 cargo test --workspace --offline --no-fail-fast 2>&1 | grep -E "^test result|FAILED|failed" | head -40')
                failed = [l for l in t.stdout.splitlines() if 'FAILED' in l or ('failed' in l and not l.startswith('test result'))]
                # the two always-failing baseline tests are expected
                nfail = sum(int(l.split(' failed')[0].split()[-1]) for l in t.stdout.splitlines() if l.startswith('test result'))
                if not any(l.startswith('test result') for l in t.stdout.splitlines()):
                    nfail = -1  # hung (timeout) or did not build
                row['tests_failed'] = nfail
            props = props_override or (m.get('breaks', []) + m.get('holds', []))
            for p in props:
                cmd = f'/verif/check {p} --no-evidence' + (f' --runs {runs}' if runs else '')
                t0 = time.time()
                r = sh(cmd)
                verdict = {0: 'pass', 1: 'VIOLATION', 2: 'harness-error'}.get(r.returncode, str(r.returncode))
                clause = ''
                for l in r.stdout.splitlines():
                    if l.strip().startswith('clause:'):
                        clause = l.strip()[8:]; break
                if r.returncode == 2:
                    clause = (r.stderr.strip().splitlines() or [''])[0][:160]
                row['results'][p] = (verdict, clause, round(time.time()-t0, 1))
            results.append((m, row))
        finally:
            sh('git -C /repo checkout -- .')
    ok = True
    for m, row in results:
        for p, (v, clause, t) in row['results'].items():
            exp = 'VIOLATION' if p in m.get('breaks', []) else ('pass' if p in m.get('holds', []) else '?')
            mark = 'ok ' if (exp == '?' or exp == v) else 'BAD'
            if mark == 'BAD': ok = False
            print(f"{mark} {m['name']:<42} {p} expected={exp:<9} got={v:<13} {t:>5}s {clause}")
        if 'tests_failed' in row:
            print(f"    {m['name']}: repo tests failed = {row['tests_failed']} (baseline has 2 always-failing)")
    if json_out:
        rows = []
        for m, row in results:
            rows.append({'name': m['name'], 'note': m.get('note', ''), 'breaks': m.get('breaks', []), 'holds': m.get('holds', []),
                         'results': {p: {'verdict': v, 'clause': c, 'wall_s': t} for p, (v, c, t) in row['results'].items()},
                         'tests_failed': row.get('tests_failed')})
        json.dump(rows, open(json_out, 'w'), indent=1)
    sys.exit(0 if ok else 1)

main()
