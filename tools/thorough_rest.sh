#!/bin/bash
# thorough tier of the checks that had trouble in the previous sweep (C03: memory; C14: watchdog)
cd "$(dirname "$0")/.."
export VERIF_REPO="${VP_RUN_REPO:-/repo}"
for p in C03 C14 C20; do
  echo "=== $p $(date +%T)"
  /usr/bin/time -v ./check $p --tier thorough --no-evidence --no-miri 2>&1 | grep -E "PASS|FAIL|ERROR|HARNESS|VIOLATION|Maximum resident" | tail -12
done
echo THOROUGH-DONE
