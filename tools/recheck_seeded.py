#!/usr/bin/env python3
"""Re-run the check of its own property against every archived sub-agent change, with the harness
as committed, on a snapshot worktree of /repo (never /repo itself).

usage: recheck_seeded.py <stream> <of> [name-prefix]
Writes sensitivity/seeded_recheck.<stream>.json ({name: {"property", "verdict", "clause", "wall_s"}}).
"""
import glob, json, os, subprocess, sys, time

def sh(cmd, timeout=1500, **kw):
    try:
        r = subprocess.run(f"timeout -k 5 {timeout} bash -c {json.dumps(cmd)}", shell=True, capture_output=True, text=True, timeout=timeout + 30, **kw)
        return r.returncode, r.stdout + r.stderr
    except subprocess.TimeoutExpired:
        return 124, "TIMEOUT"

def main():
    stream, of = int(sys.argv[1]), int(sys.argv[2])
    prefix = sys.argv[3] if len(sys.argv) > 3 else "agent"
    wt = f"/tmp/wtchk-{stream}"
    sh(f"git -C /repo worktree remove --force {wt}")
    rc, out = sh(f"git -C /repo worktree add -q --detach {wt} HEAD")
    assert rc == 0, out
    names = sorted(os.path.basename(os.path.dirname(f)) for f in glob.glob(f"/verif/seeded/{prefix}*/meta.json"))
    only = set(filter(None, os.environ.get("RECHECK_PROPS", "").split(",")))  # e.g. after an engine change: only its properties
    if only:
        names = [n for n in names if json.load(open(f"/verif/seeded/{n}/meta.json"))["property"] in only]
    names = [n for i, n in enumerate(names) if i % of == stream]
    res = {}
    outp = f"/verif/sensitivity/seeded_recheck.{os.environ.get('RECHECK_TAG', '')}{stream}{'' if prefix == 'agent' else '.' + prefix}.json"
    try:
        for n in names:
            m = json.load(open(f"/verif/seeded/{n}/meta.json"))
            prop = m["property"]
            sh(f"git -C {wt} reset -q --hard && git -C {wt} clean -fdq cadence cadence-macros")
            rc, out = sh(f"git -C {wt} apply /verif/seeded/{n}/patch.diff")
            if rc != 0:
                res[n] = {"property": prop, "verdict": "patch-does-not-apply", "clause": out[:200]}
                continue
            t0 = time.time()
            rc, out = sh(f"cd /verif && VERIF_REPO={wt} ./check {prop} --no-evidence")
            clause = next((l.strip()[8:] for l in out.splitlines() if l.strip().startswith("clause:")), "")
            res[n] = {"property": prop, "verdict": {0: "pass", 1: "VIOLATION", 2: "harness-error"}.get(rc, str(rc)), "clause": clause, "wall_s": round(time.time() - t0, 1)}
            if rc == 2:
                res[n]["stderr"] = out[-400:]
            print(n, res[n]["verdict"], clause, flush=True)
            json.dump(res, open(outp, "w"), indent=1)
    finally:
        sh(f"git -C /repo worktree remove --force {wt}")
        h = subprocess.run(f"printf %s {wt} | md5sum | cut -c1-10", shell=True, capture_output=True, text=True).stdout.strip()
        sh(f"rm -rf /verif/ws-alt-{h}")
    json.dump(res, open(outp, "w"), indent=1)
    print("RECHECK-DONE", stream)

main()
