#!/usr/bin/env python3
"""Confirm and archive a seeded (sub-agent written) property-breaking change.

usage: seeded.py confirm <name> --from /tmp/seeded-out/<dir> --prop Cxx [--checks C08,C09,...]
  1. fresh scratch worktree of /repo (outside /repo and /verif), apply patch.diff, drop the demo in
  2. existing suite must pass (apart from the 2 baseline failures)
  3. demo must FAIL with the change and PASS without it
  4. apply the patch to /repo, run the listed checks (default: the property's own), revert
  5. write /verif/seeded/<name>/{patch.diff, demo/, meta.json}
"""
import json, os, re, shutil, subprocess, sys, time

def sh(cmd, cwd=None, timeout=1500):
    # everything is bounded: a seeded change may make the suite or the demo hang
    try:
        r = subprocess.run(f"timeout -k 5 {timeout} bash -c {json.dumps(cmd)}", shell=True, capture_output=True, text=True, cwd=cwd, timeout=timeout + 30)
        return r.returncode, r.stdout + r.stderr
    except subprocess.TimeoutExpired:
        return 124, "TIMEOUT"

def suite(wt):
    rc, out = sh("cargo test --workspace --offline --no-fail-fast 2>&1", cwd=wt, timeout=400)
    failed = sorted(set(l.split()[1] for l in out.splitlines() if l.startswith("test ") and l.rstrip().endswith("FAILED")))
    return failed, out

BASE_FAIL = {"types::tests::test_metric_error_cause_io_error", "types::tests::test_metric_error_description_io_error"}

def main():
    a = sys.argv[1:]
    if a[0] != "confirm": sys.exit(2)
    name = a[1]
    src = a[a.index("--from") + 1]
    prop = a[a.index("--prop") + 1]
    checks = a[a.index("--checks") + 1].split(",") if "--checks" in a else [prop]
    demo_cmd = a[a.index("--demo-cmd") + 1] if "--demo-cmd" in a else None
    meta_in = {}
    try: meta_in = json.load(open(os.path.join(src, "meta.json")))
    except Exception as e: print("no meta.json:", e)
    demo_cmd = demo_cmd or meta_in.get("demo_cmd")
    patch = os.path.join(src, "patch.diff")
    wt = f"/tmp/confirm-{name}"
    sh(f"git -C /repo worktree remove --force {wt}")
    rc, out = sh(f"git -C /repo worktree add -q --detach {wt} HEAD")
    assert rc == 0, out
    ran = []
    result = {"name": name, "property": prop, "confirmed": False}
    try:
        # demo files: copy demo/ tree into the worktree preserving relative layout where possible
        demo_dir = os.path.join(src, "demo")
        copied = []
        for root, _, files in os.walk(demo_dir):
            for f in files:
                if f.lower().startswith("readme"): continue
                rel = os.path.relpath(os.path.join(root, f), demo_dir)
                # files given flat are assumed to be integration tests of the cadence crate
                if os.sep not in rel:
                    target_crate = "cadence-macros" if "cadence_macros" in open(os.path.join(root, f)).read() else "cadence"
                    dst = os.path.join(wt, target_crate, "tests", f)
                else:
                    dst = os.path.join(wt, rel)
                os.makedirs(os.path.dirname(dst), exist_ok=True)
                shutil.copy(os.path.join(root, f), dst); copied.append(os.path.relpath(dst, wt))
        result["demo_files"] = copied
        # without the change: demo passes
        rc0, out0 = sh(re.sub(r"/tmp/wt\d*-C\d+", wt, demo_cmd), cwd=wt)
        ran.append({"step": "demo without change", "cmd": demo_cmd, "exit": rc0})
        rc, out = sh(f"git apply {patch}", cwd=wt)
        assert rc == 0, "patch does not apply: " + out
        failed, sout = suite(wt)
        # the demo itself is part of the workspace now: exclude its tests from the suite verdict
        demo_tests = set()
        extra = [f for f in failed if f not in BASE_FAIL]
        ran.append({"step": "suite with change (demo included)", "failed_tests": failed})
        rc1, out1 = sh(re.sub(r"/tmp/wt\d*-C\d+", wt, demo_cmd), cwd=wt)
        ran.append({"step": "demo with change", "cmd": demo_cmd, "exit": rc1})
        result["demo_passes_without_change"] = (rc0 == 0)
        result["demo_fails_with_change"] = (rc1 != 0)
        # suite verdict: remove demo files, rerun
        for c in copied: os.remove(os.path.join(wt, c))
        failed2, _ = suite(wt)
        result["suite_failures_with_change"] = [f for f in failed2 if f not in BASE_FAIL]
        ran.append({"step": "suite with change (demo removed)", "failed_tests": failed2})
        result["confirmed"] = rc0 == 0 and rc1 != 0 and not result["suite_failures_with_change"]
        if not result["confirmed"]:
            print("NOT CONFIRMED", json.dumps(result, indent=1)); print(out0[-1500:]); print(out1[-1500:])
    finally:
        sh(f"git -C /repo worktree remove --force {wt}")
    # run my checks against it: on /repo itself (apply, check, revert), or with --snapshot on a
    # private worktree through VERIF_REPO (so that several confirmations / suites can run at once)
    verdicts = {}
    snapshot = "--snapshot" in a
    snap = f"/tmp/chk-{name}"
    if snapshot:
        sh(f"git -C /repo worktree remove --force {snap}")
        rc, out = sh(f"git -C /repo worktree add -q --detach {snap} HEAD")
        assert rc == 0, out
        target, env = snap, f"VERIF_REPO={snap} "
    else:
        st = sh("git -C /repo status --porcelain")[1].strip()
        assert not st, "/repo not clean: " + st
        target, env = "/repo", ""
    try:
        rc, out = sh(f"git -C {target} apply {patch}")
        assert rc == 0, out
        for c in checks:
            t0 = time.time()
            rc, out = sh(f"cd /verif && {env}./check {c} --no-evidence", timeout=3000)
            clause = next((l.strip()[8:] for l in out.splitlines() if l.strip().startswith("clause:")), "")
            detail = next((l.strip()[8:] for l in out.splitlines() if l.strip().startswith("detail:")), "")
            verdicts[c] = {"exit": rc, "verdict": {0: "pass", 1: "VIOLATION", 2: "harness-error"}.get(rc, str(rc)), "clause": clause, "detail": detail[:300], "wall_s": round(time.time() - t0, 1)}
            if rc == 2: verdicts[c]["stderr"] = out[-600:]
            print(f"  check {c}: {verdicts[c]['verdict']} {clause}")
    finally:
        if snapshot:
            sh(f"git -C /repo worktree remove --force {snap}")
            h = subprocess.run(f"printf %s {snap} | md5sum | cut -c1-10", shell=True, capture_output=True, text=True).stdout.strip()
            sh(f"rm -rf /verif/ws-alt-{h}")
        else:
            sh("git -C /repo checkout -- . && git -C /repo clean -fdq cadence cadence-macros")
    result["checks"] = verdicts
    result["detected_by_own_check"] = verdicts.get(prop, {}).get("exit") == 1
    out_dir = f"/verif/seeded/{name}"
    os.makedirs(out_dir, exist_ok=True)
    shutil.copy(patch, os.path.join(out_dir, "patch.diff"))
    if os.path.exists(os.path.join(out_dir, "demo")): shutil.rmtree(os.path.join(out_dir, "demo"))
    shutil.copytree(os.path.join(src, "demo"), os.path.join(out_dir, "demo"))
    meta = {"property": prop, "origin": "independent sub-agent given only the property text and a scratch worktree",
            "summary": meta_in.get("summary"), "needs_to_manifest": meta_in.get("needs_to_manifest"), "files_changed": meta_in.get("files_changed"),
            "demo_cmd": demo_cmd, "what_i_ran": ran, **result}
    json.dump(meta, open(os.path.join(out_dir, "meta.json"), "w"), indent=1)
    print(json.dumps({k: meta[k] for k in ("property", "confirmed", "detected_by_own_check")}, indent=None), {c: v["verdict"] for c, v in verdicts.items()})

main()
