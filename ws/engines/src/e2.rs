//! E2 `linebuf` — C05, C06, C07, C19 (and the buffered half of C13): histories of emit / flush /
//! drop on the line-buffering writer and the three buffered sinks, with a fault plan that decides
//! the result of every attempted underlying write. Single task; no scheduler involved.

use crate::common::*;
use crate::linemodel::*;
use cadence::ext::MultiLineWriter;
use cadence::{BufferedSpyMetricSink, BufferedUdpMetricSink, BufferedUnixMetricSink, Counted, MetricSink, StatsdClient};
use cadence_dsim::net::{SendOutcome, SockCtl, UdpSocket, UnixDatagram};
use cadence_dsim::rng::{Fnv, Rng};
use serde::{Deserialize, Serialize};
use std::cell::RefCell;
use std::io::Write;
use std::panic::{catch_unwind, AssertUnwindSafe};
use std::rc::Rc;

#[derive(Clone, Debug, Serialize, Deserialize, PartialEq, Eq)]
pub enum Route {
    Writer,
    Spy,
    Udp,
    Unix,
}

#[derive(Clone, Debug, Serialize, Deserialize, PartialEq, Eq)]
pub enum LbMode {
    FaultFree,
    Faulty,
    /// R1 only: the underlying writer's own flush() fails too (outside C07's quantifier; only
    /// framing, exactly-once and no-panic are judged)
    FlushFault,
}

#[derive(Clone, Debug, Serialize, Deserialize)]
pub enum LbOp {
    Emit { len: usize, id: u32 },
    Flush,
    /// spy route: receive up to n datagrams from the channel
    Drain { n: usize },
    /// spy route: receive everything, then drop the receiver (all later writes fail)
    DropRx,
}

#[derive(Clone, Debug, Serialize, Deserialize)]
pub struct LbCase {
    pub route: Route,
    pub via_client: bool,
    /// None: the constructor that takes no capacity (default 512)
    pub cap: Option<usize>,
    pub term: String,
    pub spy_queue: Option<usize>,
    pub mode: LbMode,
    pub hostile: Option<u64>,
    pub ops: Vec<LbOp>,
    /// outcome of the i-th attempted underlying write: None = Ok, Some(kind) = fail with that kind
    pub faults: Vec<Option<String>>,
    pub flush_faults: Vec<bool>,
}

pub struct E2;

const CAPS: &[usize] = &[0, 1, 2, 3, 7, 8, 16, 32, 64, 128, 256, 1024, 1432, 4096];
const TERMS: &[&str] = &["\n", "\n", "\n", "\r\n", "", "||", "é", ";"];

fn term_of(c: &LbCase) -> Vec<u8> {
    if c.route == Route::Writer {
        c.term.as_bytes().to_vec()
    } else {
        b"\n".to_vec()
    }
}

fn cap_of(c: &LbCase) -> usize {
    c.cap.unwrap_or(512)
}

const ALPHABET: &[u8] = b"abcdefghijklmnopqrstuvwxyzABCDEFGHIJKLMNOPQRSTUVWXYZ0123456789";

/// Deterministic text of a metric: one letter per metric id repeated (so every non-empty text is
/// unique within a history and terminator-free), unless hostile bytes are requested.
pub fn metric_text(len: usize, id: u32, via_client: bool, hostile: Option<u64>, sink_route: bool) -> (Vec<u8>, bool) {
    let suffix: &[u8] = if via_client { b":1|c" } else { b"" };
    let mut v: Vec<u8> = Vec::with_capacity(len);
    let body = len.saturating_sub(suffix.len());
    let unique = body >= 1 && (id as usize) < ALPHABET.len();
    let letter = ALPHABET[id as usize % ALPHABET.len()];
    match hostile {
        Some(seed) if !via_client => {
            let mut r = Rng::new(seed ^ (id as u64) << 20);
            while v.len() < body {
                let b = if sink_route {
                    // valid UTF-8 only: ASCII incl. delimiters and newlines
                    *r.pick(&[b'\n', b'\r', b'|', b':', b'#', b',', b'@', b' ', letter, b'0'])
                } else {
                    match r.below(4) {
                        0 => *r.pick(&[b'\n', b'\r', b'|', b';', 0xC3, 0xA9, 0x00, 0xFF]),
                        _ => (r.below(256)) as u8,
                    }
                };
                v.push(b);
            }
        }
        _ => {
            while v.len() < body {
                v.push(letter);
            }
        }
    }
    v.truncate(body);
    v.extend_from_slice(suffix);
    (v, unique && hostile.is_none())
}

fn gen_len(rng: &mut Rng, cap: usize, tl: usize, fill: usize, min: usize) -> usize {
    let room = cap.saturating_sub(fill);
    let l = match rng.weighted(&[18, 14, 8, 6, 6, 6, 6, 4, 4, 16, 6]) {
        0 => room.saturating_sub(tl),            // exactly fits
        1 => (room + 1).saturating_sub(tl),      // one byte short of fitting
        2 => room.saturating_sub(tl + 1),        // one byte to spare
        3 => cap,                                // capacity without terminator (bypass when tl > 0)
        4 => cap.saturating_sub(tl),             // exactly fills an empty buffer
        5 => (cap + 1).saturating_sub(tl),       // bypass by one
        6 => cap + 1 + rng.usize_below(40),      // oversize
        7 => 0,
        8 => 1,
        9 => 1 + rng.usize_below(cap.clamp(1, 24)),
        _ => rng.usize_below(2 * cap + 8),
    };
    l.clamp(min, if cap > 5000 { cap + 64 } else { 5000 })
}


impl Engine for E2 {
    type Case = LbCase;
    const NAME: &'static str = "linebuf";
    const ID: u64 = 2;

    fn real_vs_stub() -> serde_json::Value {
        serde_json::json!({
            "real": ["cadence::ext::MultiLineWriter (cadence/src/io.rs) over the real std::io::BufWriter", "BufferedSpyMetricSink", "BufferedUdpMetricSink", "BufferedUnixMetricSink", "UdpWriteAdapter/UnixWriteAdapter", "StatsdClient::flush (via_client cases)"],
            "stub": ["UDP / Unix datagram sockets: in-memory ledger with an injectable result per send (cadence_dsim::net)", "scripted underlying writer for the public MultiLineWriter route"],
            "pass_through_shims": ["Mutex (real std mutex underneath)", "crossbeam channel of the spy sink (real queue underneath)"]
        })
    }

    fn nontrivial_rule() -> &'static str {
        "one case = (construction route, capacity, terminator, operation list with lengths aimed at the current fill boundary, fault plan per underlying write attempt); generated from splitmix64(VERIF_SEED, engine, run index); fault-free cases additionally re-executed once per fault site (single-fault sweep). Distinct = distinct hash of the serialised case; non-trivial = at least 2 API calls and, for fault-injecting cases, at least one injected fault actually fired"
    }

    fn is_fault_case(c: &LbCase) -> bool {
        c.mode != LbMode::FaultFree
    }

    fn required_probes(focus: &str) -> &'static [&'static str] {
        match focus {
            "C05" | "C06" => &["exact_fit", "one_byte_short", "bypass", "bypass_while_buffered", "auto_flush", "flush_empty"],
            "C19" => &["exact_fit", "one_byte_short", "auto_flush", "greedy_checked"],
            "C07" => &["flush_failed", "auto_flush_failed", "bypass_failed", "flush_failed_then_retry_ok", "two_consecutive_flush_failures", "retry_inside_call_succeeded"],
            _ => &[],
        }
    }

    fn generate(rng: &mut Rng, focus: &str, tier: Tier) -> LbCase {
        let mut cfg = rng.split(1);
        let mut prog = rng.split(2);
        let mut flt = rng.split(3);
        let route = match cfg.weighted(&[45, 15, 20, 20]) {
            0 => Route::Writer,
            1 => Route::Spy,
            2 => Route::Udp,
            _ => Route::Unix,
        };
        // C19 (packing) is judged on fault-free histories only; C05's framing clause and C06's
        // conservation clause are also judged on histories with failed writes (a quarter of their
        // runs); C07 is the property about failures.
        let mode = match focus {
            "C07" | "C20" => match cfg.weighted(&[8, 77, 15]) {
                0 => LbMode::FaultFree,
                1 => LbMode::Faulty,
                _ => LbMode::FlushFault,
            },
            "C05" | "C06" => match cfg.weighted(&[75, 25]) {
                0 => LbMode::FaultFree,
                _ => LbMode::Faulty,
            },
            // packing is also judged where writes are refused (a refused write never licenses an
            // extra one): a fifth of C19's runs
            "C19" => match cfg.weighted(&[80, 20]) {
                0 => LbMode::FaultFree,
                _ => LbMode::Faulty,
            },
            _ => LbMode::FaultFree,
        };
        let mode = if mode == LbMode::FlushFault && route != Route::Writer { LbMode::Faulty } else { mode };
        let cap = match cfg.weighted(&[68, 10, 19, 3]) {
            0 => Some(*cfg.pick(CAPS)),
            1 => None,
            2 => Some(cfg.usize_below(if tier == Tier::Thorough { 4097 } else { 600 })),
            // rarely a large buffer (jumbo frames, Unix sockets): anything that silently assumes a
            // small one shows here
            _ => Some(*cfg.pick(&[8192usize, 8193, 9000, 16_384, 20_000, 65_536, 70_000, 131_072])),
        };
        let term = if route == Route::Writer { cfg.pick(TERMS).to_string() } else { "\n".to_string() };
        let via_client = route != Route::Writer && cfg.chance(1, 3);
        let hostile = if !via_client && cfg.chance(1, 10) { Some(cfg.next_u64()) } else { None };
        let spy_queue = if route == Route::Spy && mode == LbMode::Faulty { Some(1 + cfg.usize_below(3)) } else { None };
        let capv = cap.unwrap_or(512);
        let tl = if route == Route::Writer { term.len() } else { 1 };
        let min = if via_client { 5 } else if tl == 0 { 1 } else { 0 };
        let n_ops = 1 + prog.usize_below(if capv > 5000 { 12 } else if tier == Tier::Thorough { 60 } else { 40 });
        let flush_w = *prog.pick(&[0u32, 5, 15, 30]);
        let mut ops = Vec::new();
        let mut fill = 0usize;
        let mut rx_dropped = false;
        for id in 0..n_ops as u32 {
            let mut w = [100u32, flush_w, 0, 0];
            if route == Route::Spy && spy_queue.is_some() && !rx_dropped {
                w[2] = 25;
                w[3] = 2;
            }
            match prog.weighted(&w) {
                0 => {
                    let mut len = gen_len(&mut prog, capv, tl, fill, min);
                    // rarely, on the UDP route: a metric beyond the datagram limit (65 507): it must
                    // be handed to the socket whole (the socket refuses it), never truncated or split
                    if route == Route::Udp && !via_client && prog.chance(1, 150) {
                        len = *prog.pick(&[65_507usize, 65_508, 66_000, 70_000]);
                    }
                    let req = len + tl;
                    if req <= capv {
                        if fill + req > capv {
                            fill = 0;
                        }
                        fill += req;
                    }
                    ops.push(LbOp::Emit { len, id });
                }
                1 => {
                    fill = 0;
                    ops.push(LbOp::Flush);
                }
                2 => ops.push(LbOp::Drain { n: 1 + prog.usize_below(3) }),
                _ => {
                    rx_dropped = true;
                    ops.push(LbOp::DropRx);
                }
            }
        }
        let mut faults = Vec::new();
        let mut flush_faults = Vec::new();
        if mode != LbMode::FaultFree && route != Route::Spy {
            let rate = *flt.pick(&[2u64, 10, 30, 60]);
            let rate = if mode == LbMode::FlushFault { rate / 2 } else { rate };
            let again = *flt.pick(&[0u64, 50, 90]);
            let mut prev_failed = false;
            for _ in 0..(3 * n_ops + 8) {
                let fail = if prev_failed { flt.chance(again.max(rate), 100) } else { flt.chance(rate, 100) };
                prev_failed = fail;
                faults.push(if fail {
                    let k = if flt.chance(1, 4) { "Interrupted" } else { IO_KINDS[flt.usize_below(IO_KINDS.len())].0 };
                    Some(k.to_string())
                } else {
                    None
                });
            }
            if mode == LbMode::FlushFault {
                let fr = *flt.pick(&[10u64, 30, 60]);
                for _ in 0..(3 * n_ops + 8) {
                    flush_faults.push(flt.chance(fr, 100));
                }
            }
        }
        LbCase { route, via_client, cap, term, spy_queue, mode, hostile, ops, faults, flush_faults }
    }

    fn execute(case: &LbCase, want_trace: bool) -> Outcome {
        let mut out = Outcome::default();
        out.strategy = "single_task";
        let r = catch_unwind(AssertUnwindSafe(|| run_case(case, &mut out, want_trace)));
        if let Err(p) = r {
            out.harness_error = Some(format!("harness panicked: {}", cadence_dsim::kernel::payload_to_string(&*p)));
        }
        out
    }

    fn sweep(case: &LbCase, o: &Outcome) -> Vec<LbCase> {
        if case.mode != LbMode::FaultFree || case.route == Route::Spy {
            return Vec::new();
        }
        let sites = o.probes.get("write_attempts").copied().unwrap_or(0).min(48) as usize;
        let mut v = Vec::new();
        for i in 0..sites {
            for kind in ["Other", "Interrupted"] {
                let mut c = case.clone();
                c.mode = LbMode::Faulty;
                c.faults = vec![None; sites + 4];
                c.faults[i] = Some(kind.to_string());
                v.push(c);
            }
        }
        v
    }

    fn shrink(case: &LbCase) -> Vec<LbCase> {
        let mut v = Vec::new();
        // drop chunks of ops, then single ops
        let n = case.ops.len();
        if n > 3 {
            for (a, b) in [(0, n / 2), (n / 2, n), (0, n / 4), (n - n / 4, n)] {
                let mut c = case.clone();
                c.ops.drain(a..b);
                v.push(c);
            }
        }
        for i in 0..n {
            let mut c = case.clone();
            c.ops.remove(i);
            v.push(c);
        }
        // faults off
        if case.faults.iter().any(|f| f.is_some()) {
            let mut c = case.clone();
            c.faults.iter_mut().for_each(|f| *f = None);
            v.push(c);
            for i in 0..case.faults.len() {
                if case.faults[i].is_some() {
                    let mut c = case.clone();
                    c.faults[i] = None;
                    v.push(c);
                }
            }
            for i in 0..case.faults.len() {
                if case.faults[i].as_deref().map(|k| k != "Other").unwrap_or(false) {
                    let mut c = case.clone();
                    c.faults[i] = Some("Other".into());
                    v.push(c);
                }
            }
        }
        if case.flush_faults.iter().any(|f| *f) {
            let mut c = case.clone();
            c.flush_faults.iter_mut().for_each(|f| *f = false);
            v.push(c);
        }
        if case.hostile.is_some() {
            let mut c = case.clone();
            c.hostile = None;
            v.push(c);
        }
        if case.via_client {
            let mut c = case.clone();
            c.via_client = false;
            v.push(c);
        }
        // shorter metrics
        for i in 0..n {
            if let LbOp::Emit { len, id } = &case.ops[i] {
                for nl in [len / 2, len.saturating_sub(1)] {
                    if nl < *len {
                        let mut c = case.clone();
                        c.ops[i] = LbOp::Emit { len: nl, id: *id };
                        v.push(c);
                    }
                }
            }
        }
        // trailing unused fault entries
        if case.faults.len() > 1 && case.faults.last().map(|f| f.is_none()).unwrap_or(false) {
            let mut c = case.clone();
            while c.faults.last().map(|f| f.is_none()).unwrap_or(false) {
                c.faults.pop();
            }
            v.push(c);
        }
        v
    }
}

struct WLog {
    attempts: Vec<Attempt>,
    flush_errs: Vec<ErrId>,
    n_flush: usize,
}

struct ScriptedWriter {
    log: Rc<RefCell<WLog>>,
    faults: Vec<Option<String>>,
    flush_faults: Vec<bool>,
}

impl Write for ScriptedWriter {
    fn write(&mut self, buf: &[u8]) -> std::io::Result<usize> {
        let mut l = self.log.borrow_mut();
        let idx = l.attempts.len();
        match self.faults.get(idx).cloned().flatten() {
            None => {
                l.attempts.push(Attempt { payload: Some(buf.to_vec()), ok: true, err: None, task: None });
                Ok(buf.len())
            }
            Some(k) => {
                let e = std::io::Error::new(kind_by_name(&k), format!("fault#{idx}"));
                l.attempts.push(Attempt { payload: Some(buf.to_vec()), ok: false, err: Some(ErrId::of(&e)), task: None });
                Err(e)
            }
        }
    }

    fn flush(&mut self) -> std::io::Result<()> {
        let mut l = self.log.borrow_mut();
        let idx = l.n_flush;
        l.n_flush += 1;
        if self.flush_faults.get(idx).copied().unwrap_or(false) {
            let e = std::io::Error::new(std::io::ErrorKind::Other, format!("flushfault#{idx}"));
            l.flush_errs.push(ErrId::of(&e));
            return Err(e);
        }
        Ok(())
    }
}

fn metric_err_id(e: &cadence::MetricError) -> ErrId {
    use std::error::Error;
    match e.source().and_then(|s| s.downcast_ref::<std::io::Error>()) {
        Some(io) => ErrId::of(io),
        None => ErrId { kind: format!("MetricError::{:?}", e.kind()), msg: e.to_string(), os: None },
    }
}

fn plan_of(case: &LbCase) -> Vec<SendOutcome> {
    case.faults
        .iter()
        .map(|f| match f {
            None => SendOutcome::Ok,
            Some(k) => SendOutcome::Err { kind: kind_by_name(k), os: None },
        })
        .collect()
}

fn ledger_attempts(ctl: &SockCtl, from: usize, dest: &str, out: &mut Outcome) -> Vec<Attempt> {
    let l = ctl.ledger();
    l[from..]
        .iter()
        .map(|r| {
            if r.dest != dest {
                out.violate(&["C13"], "net.wrong-destination", format!("datagram #{} sent to {:?}, sink was constructed for {dest:?}", r.idx, r.dest));
            }
            Attempt {
                payload: Some(r.payload.clone()),
                ok: r.result.is_ok(),
                err: r.result.as_ref().err().map(|(k, os, m)| ErrId { kind: kind_name(*k), msg: m.clone(), os: *os }),
                task: r.task,
            }
        })
        .collect()
}

enum Sut {
    Writer(Option<MultiLineWriter<ScriptedWriter>>, Rc<RefCell<WLog>>),
    Sink { sink: Option<Box<dyn MetricSink>>, client: Option<StatsdClient>, ctl: Option<SockCtl>, rx: Option<cadence_dsim::channel::Receiver<Vec<u8>>>, dest: String },
}

fn run_case(case: &LbCase, out: &mut Outcome, want_trace: bool) {
    let cap = cap_of(case);
    let term = term_of(case);
    let sink_route = case.route != Route::Writer;
    let mut calls: Vec<CallRec> = Vec::new();
    let mut all_unique = true;

    // build the system under test
    let mut sut = match case.route {
        Route::Writer => {
            let log = Rc::new(RefCell::new(WLog { attempts: Vec::new(), flush_errs: Vec::new(), n_flush: 0 }));
            let w = ScriptedWriter { log: log.clone(), faults: case.faults.clone(), flush_faults: case.flush_faults.clone() };
            let mlw = if case.term == "\n" && case.cap.map(|c| c % 2 == 0).unwrap_or(true) {
                MultiLineWriter::new(w, cap)
            } else {
                MultiLineWriter::with_ending(w, cap, &case.term)
            };
            Sut::Writer(Some(mlw), log)
        }
        Route::Spy => {
            let (rx, sink) = match (case.spy_queue, case.cap) {
                (None, None) => BufferedSpyMetricSink::new(),
                (q, c) => BufferedSpyMetricSink::with_capacity(q, c),
            };
            wrap_sink(sink, case.via_client, None, Some(rx), String::new())
        }
        Route::Udp => {
            let socket = UdpSocket::bind("127.0.0.1:0").unwrap();
            let ctl = socket.ctl();
            ctl.set_plan(plan_of(case));
            let sink = match case.cap {
                None => BufferedUdpMetricSink::from("127.0.0.1:8125", socket).unwrap(),
                Some(c) => BufferedUdpMetricSink::with_capacity(("127.0.0.1", 8125), socket, c).unwrap(),
            };
            wrap_sink(sink, case.via_client, Some(ctl), None, "127.0.0.1:8125".into())
        }
        Route::Unix => {
            let socket = UnixDatagram::unbound().unwrap();
            let ctl = socket.ctl();
            ctl.set_plan(plan_of(case));
            let sink = match case.cap {
                None => BufferedUnixMetricSink::from("/sim/statsd.sock", socket),
                Some(c) => BufferedUnixMetricSink::with_capacity("/sim/statsd.sock", socket, c),
            };
            wrap_sink(sink, case.via_client, Some(ctl), None, "/sim/statsd.sock".into())
        }
    };

    // spy bookkeeping: successes per call, payloads assigned FIFO at the end
    let mut spy_success_counts: Vec<usize> = Vec::new();
    let mut spy_wire: Vec<Vec<u8>> = Vec::new();

    let mut do_call = |sut: &mut Sut, kind: CallKind, calls: &mut Vec<CallRec>, out: &mut Outcome| {
        let (before_att, before_ferr, before_len, rx_alive, rx_full) = match sut {
            Sut::Writer(_, log) => (log.borrow().attempts.len(), log.borrow().flush_errs.len(), 0, true, false),
            Sut::Sink { ctl, rx, .. } => (
                ctl.as_ref().map(|c| c.ledger().len()).unwrap_or(0),
                0,
                rx.as_ref().map(|r| r.len()).unwrap_or(0),
                rx.is_some(),
                rx.as_ref().map(|r| r.is_full()).unwrap_or(false),
            ),
        };
        let result = {
            let r = catch_unwind(AssertUnwindSafe(|| match (&kind, &mut *sut) {
                (CallKind::Emit { text, .. }, Sut::Writer(w, _)) => match w.as_mut().unwrap().write(text) {
                    Ok(n) => CallResult::OkLen(n),
                    Err(e) => CallResult::Err(ErrId::of(&e)),
                },
                (CallKind::Flush, Sut::Writer(w, _)) => match w.as_mut().unwrap().flush() {
                    Ok(()) => CallResult::OkUnit,
                    Err(e) => CallResult::Err(ErrId::of(&e)),
                },
                (CallKind::Drop, Sut::Writer(w, _)) => {
                    drop(w.take());
                    CallResult::Unobservable
                }
                (CallKind::Emit { text, .. }, Sut::Sink { sink, client, .. }) => {
                    let s = std::str::from_utf8(text).expect("sink routes use UTF-8 texts");
                    if let Some(c) = client {
                        let key = &s[..s.len() - 4];
                        match c.count(key, 1) {
                            Ok(_) => CallResult::OkLen(text.len()),
                            Err(e) => CallResult::Err(metric_err_id(&e)),
                        }
                    } else {
                        match sink.as_ref().unwrap().emit(s) {
                            Ok(n) => CallResult::OkLen(n),
                            Err(e) => CallResult::Err(ErrId::of(&e)),
                        }
                    }
                }
                (CallKind::Flush, Sut::Sink { sink, client, .. }) => {
                    if let Some(c) = client {
                        match c.flush() {
                            Ok(()) => CallResult::OkUnit,
                            Err(e) => CallResult::Err(metric_err_id(&e)),
                        }
                    } else {
                        match sink.as_ref().unwrap().flush() {
                            Ok(()) => CallResult::OkUnit,
                            Err(e) => CallResult::Err(ErrId::of(&e)),
                        }
                    }
                }
                (CallKind::Drop, Sut::Sink { sink, client, .. }) => {
                    drop(client.take());
                    drop(sink.take());
                    CallResult::Unobservable
                }
            }));
            match r {
                Ok(v) => v,
                Err(p) => CallResult::Panicked(cadence_dsim::kernel::take_last_panic().unwrap_or_else(|| cadence_dsim::kernel::payload_to_string(&*p))),
            }
        };
        let (attempts, ferrs) = match sut {
            Sut::Writer(_, log) => {
                let l = log.borrow();
                (l.attempts[before_att..].to_vec(), l.flush_errs[before_ferr..].to_vec())
            }
            Sut::Sink { ctl: Some(ctl), dest, .. } => (ledger_attempts(ctl, before_att, dest, out), Vec::new()),
            Sut::Sink { ctl: None, rx, .. } => {
                // spy: successes are visible as channel growth; a refused write only through the result
                let after = rx.as_ref().map(|r| r.len()).unwrap_or(0);
                let added = after.saturating_sub(before_len);
                let mut atts: Vec<Attempt> = (0..added).map(|_| Attempt { payload: None, ok: true, err: None, task: None }).collect();
                spy_success_counts.push(added);
                let failed = match (&result, &kind) {
                    (CallResult::Err(e), _) => Some(e.clone()),
                    (CallResult::Unobservable, CallKind::Drop) if added == 0 && (!rx_alive || rx_full) => {
                        Some(ErrId { kind: "Other".into(), msg: "unobservable".into(), os: None })
                    }
                    _ => None,
                };
                if let Some(e) = failed {
                    atts.push(Attempt { payload: None, ok: false, err: Some(e), task: None });
                }
                (atts, Vec::new())
            }
        };
        calls.push(CallRec { kind, result, attempts, inner_flush_errs: ferrs });
    };

    for op in &case.ops {
        match op {
            LbOp::Emit { len, id } => {
                let (text, unique) = metric_text(*len, *id, case.via_client, case.hostile, sink_route);
                all_unique &= unique;
                do_call(&mut sut, CallKind::Emit { text, id: *id }, &mut calls, out);
            }
            LbOp::Flush => do_call(&mut sut, CallKind::Flush, &mut calls, out),
            LbOp::Drain { n } => {
                if let Sut::Sink { rx: Some(rx), .. } = &sut {
                    for _ in 0..*n {
                        if let Ok(m) = rx.try_recv() {
                            spy_wire.push(m);
                        }
                    }
                }
            }
            LbOp::DropRx => {
                if let Sut::Sink { rx, .. } = &mut sut {
                    if let Some(r) = rx.take() {
                        while let Ok(m) = r.try_recv() {
                            spy_wire.push(m);
                        }
                    }
                }
            }
        }
    }
    do_call(&mut sut, CallKind::Drop, &mut calls, out);
    if let Sut::Sink { rx: Some(rx), .. } = &sut {
        while let Ok(m) = rx.try_recv() {
            spy_wire.push(m);
        }
    }
    // spy: assign observed payloads to the successful attempts in FIFO order
    if case.route == Route::Spy {
        let mut it = spy_wire.into_iter();
        for c in calls.iter_mut() {
            for a in c.attempts.iter_mut() {
                if a.ok {
                    a.payload = it.next();
                    if a.payload.is_none() {
                        out.harness_error = Some("spy bookkeeping: fewer datagrams received than successes counted".into());
                    }
                }
            }
        }
        if it.next().is_some() {
            out.harness_error = Some("spy bookkeeping: more datagrams received than successes counted".into());
        }
    }

    // measures
    out.api_calls = calls.len() as u64;
    let n_att: usize = calls.iter().map(|c| c.attempts.len()).sum();
    out.probe_n("write_attempts", n_att as u64);
    for c in &calls {
        for a in &c.attempts {
            if !a.ok {
                let k = a.err.as_ref().map(|e| e.kind.clone()).unwrap_or_else(|| "unknown".into());
                out.fired(&format!("write_error:{k}"));
            }
        }
        for _ in &c.inner_flush_errs {
            out.fired("inner_flush_error");
        }
    }
    for f in case.faults.iter().flatten() {
        out.configured(&format!("write_error:{f}"));
    }
    if case.spy_queue.is_some() {
        out.configured("spy_channel_full");
    }
    // retry probes
    {
        let mut consecutive_failed = 0;
        let mut had_failed_flush = false;
        for c in &calls {
            let is_flushish = !c.attempts.is_empty() && !matches!(&c.kind, CallKind::Emit { text, .. } if text.len() + term.len() > cap);
            if !is_flushish {
                continue;
            }
            let ok = c.attempts.last().map(|a| a.ok).unwrap_or(true);
            if !ok {
                consecutive_failed += 1;
                had_failed_flush = true;
                if consecutive_failed >= 2 {
                    out.probe("two_consecutive_flush_failures");
                }
            } else {
                if had_failed_flush && consecutive_failed > 0 {
                    out.probe("flush_failed_then_retry_ok");
                }
                consecutive_failed = 0;
            }
        }
    }
    let mut h = Fnv::default();
    for c in &calls {
        h.u64(match &c.result {
            CallResult::OkLen(n) => 10 + *n as u64,
            CallResult::OkUnit => 1,
            CallResult::Err(_) => 2,
            CallResult::Unobservable => 3,
            CallResult::Panicked(_) => 4,
        });
        for a in &c.attempts {
            h.u64(a.ok as u64);
            if let Some(p) = &a.payload {
                h.bytes(p);
            }
        }
    }
    out.trace_hash = h.0;

    if want_trace {
        out.trace.push(format!("route={:?} via_client={} cap={} term={:?} mode={:?}", case.route, case.via_client, cap, String::from_utf8_lossy(&term), case.mode));
        for (i, c) in calls.iter().enumerate() {
            let k = match &c.kind {
                CallKind::Emit { text, id } => format!("emit #{id} len={} {:?}", text.len(), String::from_utf8_lossy(&text[..text.len().min(40)])),
                CallKind::Flush => "flush".into(),
                CallKind::Drop => "drop".into(),
            };
            out.trace.push(format!("call {i}: {k} -> {:?}", c.result));
            for a in &c.attempts {
                out.trace.push(format!("    write ok={} err={:?} payload={:?}", a.ok, a.err.as_ref().map(|e| format!("{}:{}", e.kind, e.msg)), a.payload.as_ref().map(|p| String::from_utf8_lossy(&p[..p.len().min(80)]).into_owned())));
            }
            for e in &c.inner_flush_errs {
                out.trace.push(format!("    inner flush() failed: {}", e.msg));
            }
        }
    }
    if out.harness_error.is_some() {
        return;
    }

    // oracles
    for c in &calls {
        if let CallResult::Panicked(m) = &c.result {
            out.violate(&["C20"], "linebuf.call-panicked", format!("a call panicked: {m}"));
            return;
        }
    }
    // a nominally fault-free case can still see a refused write: the stub socket refuses a
    // datagram beyond its size limit (EMSGSIZE) by itself. Such a history is judged as a faulty one.
    let any_refused = calls.iter().any(|c| c.attempts.iter().any(|a| !a.ok));
    let judged_fault_free = case.mode == LbMode::FaultFree && !any_refused;
    match case.mode {
        LbMode::FaultFree | LbMode::Faulty => {
            let mode = if judged_fault_free { Mode::FaultFree } else { Mode::Faulty };
            check_history(&ModelCfg { cap, term: term.clone(), mode }, &calls, out);
            if judged_fault_free && out.violations.is_empty() {
                check_greedy(cap, term.len(), &calls, out);
            }
        }
        LbMode::FlushFault => {}
    }
    // the stream oracle is independent of the model; it needs unique terminator-free texts
    if all_unique && !term.is_empty() {
        let mut metrics = Vec::new();
        let mut seq = 0;
        for c in &calls {
            if let CallKind::Emit { text, id } = &c.kind {
                let acked = matches!(c.result, CallResult::OkLen(_));
                let refused = matches!(c.result, CallResult::Err(_));
                // in flushfault mode an emit may return the inner flush error although its own
                // bytes were buffered later or not: only "acked" metrics are judged
                metrics.push(StreamMetric { id: *id, text: text.clone(), acked, refused: refused && case.mode != LbMode::FlushFault, emitter: 0, seq });
                seq += 1;
            }
        }
        let writes: Vec<Attempt> = calls.iter().flat_map(|c| c.attempts.iter().cloned()).collect();
        // was the final flush (the drop) successful, i.e. may everything be expected on the wire?
        let final_ok = calls.last().map(|c| c.attempts.last().map(|a| a.ok).unwrap_or(true)).unwrap_or(true) && case.mode != LbMode::FlushFault;
        // bypass writes are exempt from ordering: give them their own emitter lane
        let mut ms = metrics;
        for m in ms.iter_mut() {
            if m.text.len() + term.len() > cap {
                m.emitter = 1_000_000 + m.id as usize;
            }
        }
        let cons: &[&str] = if judged_fault_free { &["C06"] } else { &["C07"] };
        check_stream(cap, &term, &ms, &writes, final_ok, cons, out);
        out.probe("stream_oracle_checked");
    }
    // under injected failures every clause is also C07's ("failures never cause ..."); the framing
    // clauses stay C05's ("every write ... no write contains a partial line") and the conservation
    // clauses stay C06's ("by the time a later flush returns Ok"), C19 keeps its own clauses to itself
    if !judged_fault_free {
        for v in out.violations.iter_mut() {
            if v.props.iter().any(|p| p == "C13") && v.clause.starts_with("net.") {
                continue;
            }
            let panicked = v.clause.contains("panicked");
            let framing = matches!(
                v.clause.as_str(),
                "linebuf.write-not-whole-lines" | "linebuf.write-exceeds-capacity" | "stream.write-exceeds-capacity" | "stream.partial-or-foreign-line" | "stream.unterminated-line" | "stream.oversize-merged" | "linebuf.bypass-payload"
            );
            let conservation = matches!(
                v.clause.as_str(),
                "linebuf.flush-ok-but-still-buffered" | "linebuf.written-twice" | "linebuf.write-wrong-lines" | "stream.accepted-never-written" | "stream.written-twice" | "linebuf.drop-left-metrics-unwritten" | "stream.order" | "linebuf.bypass-not-written"
            );
            if matches!(v.clause.as_str(), "linebuf.needless-write" | "linebuf.not-greedy") {
                // packing is C19's alone, with or without refused writes
                v.props = vec!["C19".to_string()];
                continue;
            }
            let mut props = vec!["C07".to_string()];
            if panicked {
                props.push("C20".to_string());
            }
            if framing && case.mode != LbMode::FlushFault {
                props.push("C05".to_string());
            }
            if conservation && case.mode != LbMode::FlushFault {
                props.push("C06".to_string());
            }
            v.props = props;
        }
    }
}

fn wrap_sink<T>(sink: T, via_client: bool, ctl: Option<SockCtl>, rx: Option<cadence_dsim::channel::Receiver<Vec<u8>>>, dest: String) -> Sut
where
    T: MetricSink + Sync + Send + std::panic::RefUnwindSafe + 'static,
{
    if via_client {
        Sut::Sink { sink: None, client: Some(StatsdClient::from_sink("", sink)), ctl, rx, dest }
    } else {
        Sut::Sink { sink: Some(Box::new(sink)), client: None, ctl, rx, dest }
    }
}

/// Second, independent C19 oracle for fault-free histories: the successful writes must equal the
/// greedy in-order packing exactly (membership and order of every batch).
fn check_greedy(cap: usize, tl: usize, calls: &[CallRec], out: &mut Outcome) {
    let ops: Vec<(Option<usize>, bool)> = calls
        .iter()
        .map(|c| match &c.kind {
            CallKind::Emit { text, .. } => (Some(text.len()), false),
            _ => (None, false),
        })
        .collect();
    let writes: Vec<&Attempt> = calls.iter().flat_map(|c| c.attempts.iter()).filter(|a| a.ok).collect();
    let got: Vec<usize> = writes.iter().map(|a| a.payload.as_ref().map(|p| p.len()).unwrap_or(0)).collect();
    out.probe("greedy_checked");
    // two admissible treatments of an oversize metric: it passes the buffered lines (the shipped
    // writer), or it first sends them (an order-preserving variant); either way in-order packing
    let mut shown = Vec::new();
    for barrier in [false, true] {
        let expect = crate::linemodel::greedy_packing_mode(cap, tl, &ops, barrier);
        let mut exp_payload_lens: Vec<usize> = Vec::new();
        for b in &expect {
            if b.len() == 1 && b[0] > usize::MAX / 2 {
                let i = usize::MAX - b[0];
                exp_payload_lens.push(ops[i].0.unwrap());
            } else {
                exp_payload_lens.push(b.iter().map(|i| ops[*i].0.unwrap() + tl).sum());
            }
        }
        if exp_payload_lens == got {
            return;
        }
        if !barrier {
            // bypass writes are not ordered relative to buffered ones: compare as multisets + count
            let mut a = exp_payload_lens.clone();
            let mut b = got.clone();
            a.sort_unstable();
            b.sort_unstable();
            if a == b {
                return;
            }
        }
        shown.push(exp_payload_lens);
    }
    out.violate(&["C19"], "linebuf.not-greedy", format!("datagram sizes {got:?} differ from greedy in-order packing {:?} (or {:?} if an oversize metric first sends what is buffered) (cap {cap}, terminator {tl} bytes)", shown[0], shown[1]));
}

