//! E3 `queue` — C08, C09, C10, C11, C15, C16: the real `QueuingMetricSink` (worker thread,
//! sentinel respawn, channel, counters) running as simulated tasks against a scripted wrapped
//! sink whose k-th invocation answers Ok / Err / panic / slow / stall-on-gate.

use crate::common::*;
use cadence::{MetricSink, QueuingMetricSink};
use cadence_dsim::kernel::{self, ChanEvent, Gate, KConfig, Kernel, TState, TaskInfo};
use cadence_dsim::rng::{Fnv, Rng};
use cadence_dsim::thread as sthread;
use serde::{Deserialize, Serialize};
use std::io;
use std::panic::{catch_unwind, resume_unwind, AssertUnwindSafe};
use std::sync::atomic::{AtomicUsize, Ordering as O};
use std::sync::{Arc, Mutex};

#[derive(Clone, Debug, Serialize, Deserialize, PartialEq)]
pub enum SinkOutcome {
    Ok,
    /// accepted, but reports 0 bytes written (a NopMetricSink does this)
    OkZero,
    Err(String),
    Panic,
    Slow(u8),
    Stall(usize),
}

#[derive(Clone, Debug, Serialize, Deserialize)]
pub enum QOp {
    Emit { h: usize, id: u32 },
    Clone { src: usize, dst: usize },
    Drop { h: usize },
    Read { h: usize },
    OpenGate { g: usize },
    Yield,
    /// `flush()` through the queuing handle (reaches the wrapped sink directly)
    Flush { h: usize },
    /// emit the empty string: a legal metric for `MetricSink::emit`, at most once per case
    EmitEmpty { h: usize },
    /// emit `n` metrics in a row (ids first..first+n): fills large queues
    Burst { h: usize, first: u32, n: u32 },
}

#[derive(Clone, Debug, Serialize, Deserialize)]
pub struct QCase {
    pub sched: SchedSpec,
    /// None = unbounded
    pub cap: Option<usize>,
    pub via_builder: bool,
    /// the wrapped sink behaves like cadence's own buffered sinks after a panic inside `emit`: its
    /// lock is poisoned, so a later `flush()` panics too (only in cases whose programs never flush)
    #[serde(default)]
    pub poison: bool,
    pub handler: bool,
    /// the scripted wrapped sink's `flush()` returns an error while its "backend is down" (from an
    /// `emit` that returned Err until the next one that succeeds) - like a buffered sink whose
    /// socket refuses. Nobody may report that to the error handler: C16 is about emit failures.
    #[serde(default)]
    pub flush_fails: bool,
    pub plan: Vec<SinkOutcome>,
    pub n_gates: usize,
    pub main_ops: Vec<QOp>,
    pub producers: Vec<Vec<QOp>>,
    pub sampler: usize,
    /// main keeps one extra handle until the very end (so counters can be read at quiescent points)
    pub observer: bool,
    /// whether that last handle is finally dropped (true) or kept alive for ever (false)
    pub final_drop: bool,
    /// None: the wrapped sink is purely scripted. Some(cap): a real BufferedUdpMetricSink of that
    /// capacity over a simulated socket sits behind the scripted outcomes (ok / slow / stall
    /// delegate to it; error and panic outcomes are raised before it is reached)
    #[serde(default)]
    pub wrapped_buffered: Option<usize>,
    /// with a wrapped buffered sink: send attempts of its socket that find the socket buffer full
    /// and block (blocking mode) until the extra gate opens — the worker is then stalled *inside*
    /// the buffered sink, holding its lock
    #[serde(default)]
    pub sock_full: Vec<usize>,
    /// metric strings get a long tail of multi-byte characters (a refused or queued metric is a
    /// `String` somebody may slice or truncate)
    #[serde(default)]
    pub wide_strings: bool,
}

const SLOTS: usize = 3;

#[derive(Clone, Debug)]
enum Ev {
    SinkEnter { k: usize, s: String, task: usize, step: u64 },
    SinkExit { k: usize, outcome: SinkOutcome, step: u64 },
    Handler { kind: String, msg: String, task: usize },
    SinkDrop,
    /// the poisoned wrapped sink's flush() panicked (on `task`)
    FlushPanic { task: usize },
}

#[derive(Clone, Debug)]
enum ApiRes {
    Ok(usize),
    Err(String),
    Unit,
    Panicked(String),
}

#[derive(Clone, Debug)]
struct ProdEv {
    task: usize,
    what: String,
    id: Option<u32>,
    s: String,
    res: ApiRes,
    steps: u64,
    blocks: u64,
    /// waits for a lock held by another task during the call (not counted in `blocks`)
    lock_waits: u64,
    /// failed compare-exchange operations during the call (a lock-free retry loop)
    cas_failures: u64,
    step_at: u64,
    step_before: u64,
    gate_closed: bool,
}

struct Shared {
    wide_strings: bool,
    ctl: Option<cadence_dsim::net::SockCtl>,
    log: Mutex<Vec<Ev>>,
    prod: Mutex<Vec<ProdEv>>,
    samples: Mutex<Vec<(u64, u64)>>,
    gates: Vec<Gate>,
    plan: Vec<SinkOutcome>,
    invocations: AtomicUsize,
    sink_drops: AtomicUsize,
    poison: bool,
    poisoned: std::sync::atomic::AtomicBool,
    flush_fails: bool,
    backend_down: std::sync::atomic::AtomicBool,
}

struct ScriptedSink {
    sh: Arc<Shared>,
    /// owned by the wrapped sink itself, so that dropping the wrapped sink drops (and flushes) it
    inner: Option<cadence::BufferedUdpMetricSink>,
}

struct ExitGuard<'a> {
    sh: &'a Shared,
    k: usize,
    outcome: SinkOutcome,
}

impl Drop for ExitGuard<'_> {
    fn drop(&mut self) {
        self.sh.log.lock().unwrap().push(Ev::SinkExit { k: self.k, outcome: self.outcome.clone(), step: kernel::steps() });
    }
}

impl MetricSink for ScriptedSink {
    fn flush(&self) -> io::Result<()> {
        kernel::event(|| "wrapped.flush".to_string(), &[0x74]);
        if self.sh.poison && self.sh.poisoned.load(O::SeqCst) {
            // what `self.buffer.lock().unwrap()` does after a panic under the lock. After eight
            // of them in a row the point is made (see the judge) and the sink recovers, so that
            // the run comes to rest.
            let n = {
                let mut l = self.sh.log.lock().unwrap();
                let n = l.iter().filter(|e| matches!(e, Ev::FlushPanic { .. })).count();
                if n < 8 {
                    l.push(Ev::FlushPanic { task: kernel::current_task().unwrap_or(usize::MAX) });
                }
                n
            };
            if n < 8 {
                resume_unwind(Box::new("injected panic#flush (the wrapped sink's lock is poisoned by an earlier panic)".to_string()));
            }
        }
        self.flush_inner()
    }

    fn stats(&self) -> cadence::SinkStats {
        match &self.inner {
            Some(i) => i.stats(),
            None => cadence::SinkStats::default(),
        }
    }

    fn emit(&self, metric: &str) -> io::Result<usize> {
        let k = self.sh.invocations.fetch_add(1, O::SeqCst);
        let task = kernel::current_task().unwrap_or(usize::MAX);
        let outcome = self.sh.plan.get(k).cloned().unwrap_or(SinkOutcome::Ok);
        self.sh.log.lock().unwrap().push(Ev::SinkEnter { k, s: metric.to_string(), task, step: kernel::steps() });
        let mut h = Fnv::default();
        h.bytes(metric.as_bytes());
        kernel::event(|| format!("wrapped.emit#{k} {metric:?} -> {outcome:?}"), &[0x70, k as u64, h.0]);
        let _g = ExitGuard { sh: &self.sh, k, outcome: outcome.clone() };
        if let Some(inner) = &self.inner {
            // a real buffered sink behind the script
            match &outcome {
                SinkOutcome::Ok | SinkOutcome::OkZero => return inner.emit(metric),
                SinkOutcome::Slow(j) => {
                    for _ in 0..*j {
                        kernel::yield_now();
                    }
                    return inner.emit(metric);
                }
                SinkOutcome::Stall(g) => {
                    if let Some(gate) = self.sh.gates.get(*g) {
                        gate.wait("wrapped sink stalled");
                    }
                    return inner.emit(metric);
                }
                _ => {}
            }
        }
        self.sh.backend_down.store(matches!(outcome, SinkOutcome::Err(_)), O::SeqCst);
        match outcome {
            SinkOutcome::Ok => {
                kernel::yield_now();
                Ok(metric.len())
            }
            SinkOutcome::OkZero => Ok(0),
            SinkOutcome::Err(kind) => {
                kernel::yield_now();
                Err(io::Error::new(kind_by_name(&kind), format!("fault#{k}")))
            }
            SinkOutcome::Panic => {
                kernel::yield_now();
                self.sh.poisoned.store(true, O::SeqCst);
                resume_unwind(Box::new(format!("injected panic#{k}")));
            }
            SinkOutcome::Slow(j) => {
                for _ in 0..j {
                    kernel::yield_now();
                }
                Ok(metric.len())
            }
            SinkOutcome::Stall(g) => {
                if let Some(gate) = self.sh.gates.get(g) {
                    gate.wait("wrapped sink stalled");
                }
                Ok(metric.len())
            }
        }
    }
}

impl ScriptedSink {
    fn flush_inner(&self) -> io::Result<()> {
        match &self.inner {
            Some(i) => i.flush(),
            None if self.sh.flush_fails && self.sh.backend_down.load(O::SeqCst) => Err(io::Error::new(io::ErrorKind::Other, "flush refused: backend down")),
            None => Ok(()),
        }
    }
}

impl Drop for ScriptedSink {
    fn drop(&mut self) {
        self.sh.sink_drops.fetch_add(1, O::SeqCst);
        if let Ok(mut l) = self.sh.log.lock() {
            l.push(Ev::SinkDrop);
        }
        kernel::event(|| "wrapped.drop".to_string(), &[0x71]);
    }
}

#[derive(Clone, Debug, Default)]
struct Counters {
    submitted: u64,
    drained: u64,
    queued: u64,
    panics: u64,
}

struct Snapshot {
    counters: Option<Counters>,
    acks: u64,
    sink_enters: u64,
    panics_fired: u64,
    tasks: Vec<TaskInfo>,
    label: &'static str,
}

struct Obs {
    log: Vec<Ev>,
    prod: Vec<ProdEv>,
    samples: Vec<(u64, u64)>,
    chan: Vec<ChanEvent>,
    snaps: Vec<Snapshot>,
    final_tasks: Vec<TaskInfo>,
    all_dropped: bool,
    ledger: Vec<cadence_dsim::net::SendRec>,
}

pub struct E3;

fn call<R>(f: impl FnOnce() -> R) -> Result<R, String> {
    match catch_unwind(AssertUnwindSafe(f)) {
        Ok(r) => Ok(r),
        Err(p) => {
            if kernel::is_abort(&*p) {
                resume_unwind(p);
            }
            Err(kernel::take_last_panic().unwrap_or_else(|| kernel::payload_to_string(&*p)))
        }
    }
}

/// (own steps, blocked states other than short waits for a mutex, global step)
fn stats3() -> (u64, u64, u64, u64, u64) {
    let (a, b, lock_waits) = kernel::my_stats3();
    (a, b, kernel::steps(), lock_waits, kernel::my_cas_failures())
}

/// The text of metric `id` emitted by task `me`: unique, optionally with a multi-byte tail whose
/// character boundaries fall at varying byte offsets.
fn metric_string(sh: &Shared, id: u32, me: usize) -> String {
    let mut s = format!("m{id}.t{me}");
    if sh.wide_strings {
        s.push_str(&"x".repeat((id as usize * 7 + me) % 5));
        for i in 0..(20 + (id as usize % 30)) {
            s.push(if (i + id as usize) % 3 == 0 { '√' } else { 'é' });
        }
    }
    s
}

fn any_gate_closed(sh: &Shared) -> bool {
    sh.gates.iter().any(|g| !g.is_open())
}

fn run_prog(task_no: usize, ops: &[QOp], first: QueuingMetricSink, sh: &Arc<Shared>) {
    let mut slots: Vec<Option<QueuingMetricSink>> = (0..SLOTS).map(|_| None).collect();
    slots[0] = Some(first);
    let me = kernel::current_task().unwrap_or(0);
    let _ = task_no;
    let record = |sh: &Shared, what: &str, id: Option<u32>, s: String, res: ApiRes, before: (u64, u64, u64, u64, u64), gate_closed: bool| {
        let after = kernel::my_stats3();
        sh.prod.lock().unwrap().push(ProdEv {
            task: me,
            what: what.to_string(),
            id,
            s,
            res,
            steps: after.0 - before.0,
            blocks: after.1 - before.1,
            lock_waits: after.2 - before.3,
            cas_failures: kernel::my_cas_failures() - before.4,
            step_at: kernel::steps(),
            step_before: before.2,
            gate_closed,
        });
    };
    for op in ops {
        match op {
            QOp::Emit { h, id } => {
                if let Some(q) = slots.get(*h).and_then(|s| s.as_ref()) {
                    let s = metric_string(sh, *id, me);
                    kernel::set_label(format!("emit {s}"));
                    let gc = any_gate_closed(sh);
                    let before = stats3();
                    let r = call(|| q.emit(&s));
                    let res = match r {
                        Ok(Ok(n)) => ApiRes::Ok(n),
                        Ok(Err(e)) => ApiRes::Err(e.to_string()),
                        Err(p) => ApiRes::Panicked(p),
                    };
                    record(sh, "emit", Some(*id), s, res, before, gc);
                }
            }
            QOp::EmitEmpty { h } => {
                if let Some(q) = slots.get(*h).and_then(|s| s.as_ref()) {
                    kernel::set_label("emit \"\"");
                    let gc = any_gate_closed(sh);
                    let before = stats3();
                    let r = call(|| q.emit(""));
                    let res = match r {
                        Ok(Ok(n)) => ApiRes::Ok(n),
                        Ok(Err(e)) => ApiRes::Err(e.to_string()),
                        Err(p) => ApiRes::Panicked(p),
                    };
                    record(sh, "emit", None, String::new(), res, before, gc);
                }
            }
            QOp::Burst { h, first, n } => {
                if let Some(q) = slots.get(*h).and_then(|s| s.as_ref()) {
                    for id in *first..*first + *n {
                        let s = metric_string(sh, id, me);
                        kernel::set_label(format!("emit {s}"));
                        let gc = any_gate_closed(sh);
                        let before = stats3();
                        let r = call(|| q.emit(&s));
                        let res = match r {
                            Ok(Ok(n)) => ApiRes::Ok(n),
                            Ok(Err(e)) => ApiRes::Err(e.to_string()),
                            Err(p) => ApiRes::Panicked(p),
                        };
                        record(sh, "emit", Some(id), s, res, before, gc);
                    }
                }
            }
            QOp::Clone { src, dst } => {
                if *dst < SLOTS && slots[*dst].is_none() {
                    if let Some(q) = slots.get(*src).and_then(|s| s.as_ref()) {
                        kernel::set_label("clone");
                        let before = stats3();
                        let r = call(|| q.clone());
                        match r {
                            Ok(c) => {
                                slots[*dst] = Some(c);
                                record(sh, "clone", None, String::new(), ApiRes::Unit, before, false);
                            }
                            Err(p) => record(sh, "clone", None, String::new(), ApiRes::Panicked(p), before, false),
                        }
                    }
                }
            }
            QOp::Drop { h } => {
                if let Some(q) = slots.get_mut(*h).and_then(|s| s.take()) {
                    kernel::set_label("drop handle");
                    let before = stats3();
                    let r = call(move || drop(q));
                    let res = match r {
                        Ok(()) => ApiRes::Unit,
                        Err(p) => ApiRes::Panicked(p),
                    };
                    record(sh, "drop", None, String::new(), res, before, false);
                }
            }
            QOp::Read { h } => {
                if let Some(q) = slots.get(*h).and_then(|s| s.as_ref()) {
                    kernel::set_label("read counters");
                    let before = stats3();
                    let r = call(|| {
                        let qd = q.queued();
                        let sb = q.submitted();
                        (qd, sb)
                    });
                    match r {
                        Ok(v) => {
                            sh.samples.lock().unwrap().push(v);
                            record(sh, "read", None, String::new(), ApiRes::Unit, before, false);
                        }
                        Err(p) => record(sh, "read", None, String::new(), ApiRes::Panicked(p), before, false),
                    }
                }
            }
            QOp::OpenGate { g } => {
                if let Some(gate) = sh.gates.get(*g) {
                    gate.open();
                    kernel::event(|| format!("open gate {g}"), &[0x72, *g as u64]);
                }
            }
            QOp::Yield => kernel::yield_now(),
            QOp::Flush { h } => {
                if let Some(q) = slots.get(*h).and_then(|s| s.as_ref()) {
                    kernel::set_label("flush through the queuing sink");
                    let before = stats3();
                    let r = call(|| q.flush());
                    let res = match r {
                        Ok(Ok(())) => ApiRes::Unit,
                        Ok(Err(e)) => ApiRes::Err(e.to_string()),
                        Err(p) => ApiRes::Panicked(p),
                    };
                    record(sh, "flush", None, String::new(), res, before, false);
                }
            }
        }
    }
    // the end of the program drops whatever handles the task still owns, one by one
    for i in 0..SLOTS {
        if let Some(q) = slots[i].take() {
            kernel::set_label("drop handle (end of program)");
            let before = stats3();
            let r = call(move || drop(q));
            let res = match r {
                Ok(()) => ApiRes::Unit,
                Err(p) => ApiRes::Panicked(p),
            };
            record(sh, "drop", None, String::new(), res, before, false);
        }
    }
    kernel::set_label("done");
}

fn snapshot(sh: &Shared, observer: Option<&QueuingMetricSink>, label: &'static str) -> Snapshot {
    let counters = observer.map(|q| Counters { submitted: q.submitted(), drained: q.drained(), queued: q.queued(), panics: q.panics() });
    let acks = sh.prod.lock().unwrap().iter().filter(|e| e.what == "emit" && matches!(e.res, ApiRes::Ok(_))).count() as u64;
    let log = sh.log.lock().unwrap();
    let sink_enters = log.iter().filter(|e| matches!(e, Ev::SinkEnter { .. })).count() as u64;
    let panics_fired = log.iter().filter(|e| matches!(e, Ev::SinkExit { outcome: SinkOutcome::Panic, .. } | Ev::FlushPanic { .. })).count() as u64;
    Snapshot { counters, acks, sink_enters, panics_fired, tasks: kernel::task_table(), label }
}

fn sim_main(case: QCase) -> Obs {
    let mut gates: Vec<Gate> = (0..case.n_gates).map(|_| Gate::new()).collect();
    let (inner, ctl) = match case.wrapped_buffered {
        Some(cap) => {
            let socket = cadence_dsim::net::UdpSocket::bind("0.0.0.0:0").unwrap();
            let ctl = socket.ctl();
            if !case.sock_full.is_empty() {
                let g = Gate::new();
                let n = case.sock_full.iter().copied().max().unwrap_or(0) + 1;
                ctl.set_plan((0..n).map(|i| if case.sock_full.contains(&i) { cadence_dsim::net::SendOutcome::Full(g.clone()) } else { cadence_dsim::net::SendOutcome::Ok }).collect());
                gates.push(g);
            }
            (Some(cadence::BufferedUdpMetricSink::with_capacity("127.0.0.1:8125", socket, cap).unwrap()), Some(ctl))
        }
        None => (None, None),
    };
    let sh = Arc::new(Shared {
        wide_strings: case.wide_strings,
        ctl,
        log: Mutex::new(Vec::new()),
        prod: Mutex::new(Vec::new()),
        samples: Mutex::new(Vec::new()),
        gates,
        plan: case.plan.clone(),
        invocations: AtomicUsize::new(0),
        sink_drops: AtomicUsize::new(0),
        poison: case.poison,
        poisoned: std::sync::atomic::AtomicBool::new(false),
        flush_fails: case.flush_fails,
        backend_down: std::sync::atomic::AtomicBool::new(false),
    });
    kernel::set_label("construct");
    let sink = ScriptedSink { sh: sh.clone(), inner };
    let q = if case.via_builder || case.handler {
        let mut b = QueuingMetricSink::builder();
        // the order in which the builder's options are given must not matter
        let handler_first = case.plan.len() % 2 == 1;
        if !handler_first {
            if let Some(c) = case.cap {
                b = b.with_capacity(c);
            }
        }
        if case.handler {
            let sh2 = sh.clone();
            b = b.with_error_handler(move |e: io::Error| {
                let task = kernel::current_task().unwrap_or(usize::MAX);
                sh2.log.lock().unwrap().push(Ev::Handler { kind: kind_name(e.kind()), msg: e.to_string(), task });
                kernel::event(|| format!("handler {e}"), &[0x73]);
            });
        }
        if handler_first {
            if let Some(c) = case.cap {
                b = b.with_capacity(c);
            }
        }
        b.build(sink)
    } else {
        match case.cap {
            Some(c) => QueuingMetricSink::with_capacity(sink, c),
            None => QueuingMetricSink::from(sink),
        }
    };
    let observer = if case.observer { Some(q.clone()) } else { None };
    if !sh.gates.is_empty() {
        // gatekeeper: if the main task itself gets stuck inside an API call while everything else
        // is idle (e.g. a flush waiting for a lock the stalled worker holds), nobody else would ever
        // open the gates; "faults stop" then
        let sh2 = sh.clone();
        sthread::spawn_named("gatekeeper", move || loop {
            kernel::set_label("gatekeeper: idle");
            kernel::wait_idle();
            if sh2.gates.iter().all(|g| g.is_open()) {
                break;
            }
            let t = kernel::task_table();
            match &t[0].state {
                TState::Blocked { res, .. } if *res != kernel::IDLE_RES => {
                    for g in &sh2.gates {
                        g.open();
                    }
                    kernel::event(|| "gatekeeper opened all gates (main task stuck in an API call)".to_string(), &[0x75]);
                    break;
                }
                TState::Finished => break,
                _ => {}
            }
        });
    }
    for (i, prog) in case.producers.iter().enumerate() {
        let h = q.clone();
        let sh2 = sh.clone();
        let prog = prog.clone();
        sthread::spawn_named(&format!("p{}", i + 1), move || run_prog(i + 1, &prog, h, &sh2));
    }
    if case.sampler > 0 {
        let h = q.clone();
        let sh2 = sh.clone();
        let n = case.sampler;
        sthread::spawn_named("sampler", move || {
            let ops: Vec<QOp> = (0..n).map(|_| QOp::Read { h: 0 }).collect();
            run_prog(99, &ops, h, &sh2);
        });
    }
    run_prog(0, &case.main_ops, q, &sh);

    let mut snaps = Vec::new();
    kernel::set_label("settle: wait for producers");
    kernel::wait_idle();
    snaps.push(snapshot(&sh, observer.as_ref(), "producers idle (gates may be closed)"));
    kernel::set_label("settle: open gates");
    for g in &sh.gates {
        g.open();
    }
    kernel::wait_idle();
    snaps.push(snapshot(&sh, observer.as_ref(), "gates open, queue drained"));
    let mut all_dropped = true;
    if let Some(o) = observer {
        if case.final_drop {
            kernel::set_label("drop last handle");
            let me = kernel::current_task().unwrap_or(0);
            let before = stats3();
            let r = call(move || drop(o));
            let after = kernel::my_stats3();
            sh.prod.lock().unwrap().push(ProdEv {
                task: me,
                what: "drop".into(),
                id: None,
                s: String::new(),
                res: match r {
                    Ok(()) => ApiRes::Unit,
                    Err(p) => ApiRes::Panicked(p),
                },
                steps: after.0 - before.0,
                blocks: after.1 - before.1,
                lock_waits: after.2 - before.3,
                cas_failures: kernel::my_cas_failures() - before.4,
                step_at: kernel::steps(),
                step_before: before.2,
                gate_closed: false,
            });
        } else {
            std::mem::forget(o);
            all_dropped = false;
        }
    }
    kernel::set_label("settle: final");
    kernel::wait_idle();
    snaps.push(snapshot(&sh, None, "final"));
    let log = sh.log.lock().unwrap().clone();
    let prod = sh.prod.lock().unwrap().clone();
    let samples = sh.samples.lock().unwrap().clone();
    let ledger = sh.ctl.as_ref().map(|c| c.ledger()).unwrap_or_default();
    let chan = normalise_chan(kernel::chan_log(), &prod);
    Obs { log, prod, samples, chan, snaps, final_tasks: kernel::task_table(), all_dropped, ledger }
}

fn gen_prog(rng: &mut Rng, n: usize, next_id: &mut u32, n_gates: usize, w_clone: u32, w_drop: u32, w_flush: u32) -> Vec<QOp> {
    let mut ops = Vec::new();
    let mut alive = [true, false, false];
    for _ in 0..n {
        let live: Vec<usize> = (0..SLOTS).filter(|i| alive[*i]).collect();
        let dead: Vec<usize> = (0..SLOTS).filter(|i| !alive[*i]).collect();
        let w = [
            if live.is_empty() { 0 } else { 60 },
            if live.is_empty() || dead.is_empty() { 0 } else { w_clone },
            if live.is_empty() { 0 } else { w_drop },
            if live.is_empty() { 0 } else { 5 },
            if n_gates > 0 { 6 } else { 0 },
            5,
            if live.is_empty() { 0 } else { w_flush },
        ];
        if w.iter().sum::<u32>() == 0 {
            break;
        }
        match rng.weighted(&w) {
            0 => {
                ops.push(QOp::Emit { h: *rng.pick(&live), id: *next_id });
                *next_id += 1;
            }
            1 => {
                let dst = *rng.pick(&dead);
                ops.push(QOp::Clone { src: *rng.pick(&live), dst });
                alive[dst] = true;
            }
            2 => {
                let h = *rng.pick(&live);
                ops.push(QOp::Drop { h });
                alive[h] = false;
            }
            3 => ops.push(QOp::Read { h: *rng.pick(&live) }),
            4 => ops.push(QOp::OpenGate { g: rng.usize_below(n_gates) }),
            6 => ops.push(QOp::Flush { h: *rng.pick(&live) }),
            _ => ops.push(QOp::Yield),
        }
    }
    ops
}

impl Engine for E3 {
    type Case = QCase;
    const NAME: &'static str = "queue";
    const ID: u64 = 3;

    fn real_vs_stub() -> serde_json::Value {
        serde_json::json!({
            "real": ["cadence/src/sinks/queuing.rs in full: QueuingMetricSinkBuilder, QueuingMetricSink (emit, clone, drop, counters), Worker (submit/run/stop), Sentinel (respawn while unwinding), WorkerStats"],
            "pass_through_shims": ["thread::spawn (a real OS thread that runs only when the simulator schedules it; real unwinding and destructors)", "crossbeam channel for capacity >= 1 and unbounded (real crossbeam queue; only waiting is simulated)", "AtomicU64/AtomicBool (real atomics, a scheduling point before each operation)"],
            "stub": ["the wrapped sink (scripted outcome per invocation: ok / io error / panic / slow / stall on a gate)", "capacity-0 rendezvous channel (hand-written model; judged for everything except C10's occupancy clauses)"]
        })
    }

    fn nontrivial_rule() -> &'static str {
        "one case = (constructor, capacity, handler, outcome plan of the wrapped sink, programs of main + 0..3 producer tasks + optional sampler, scheduler strategy and seed); distinct = distinct (case hash, hash of the schedule actually taken); non-trivial = at least 2 API calls and, when the plan contains faults (error / panic / stall), at least one of them actually fired"
    }

    fn is_fault_case(c: &QCase) -> bool {
        c.plan.iter().any(|o| !matches!(o, SinkOutcome::Ok | SinkOutcome::OkZero | SinkOutcome::Slow(_)))
    }

    fn required_probes(focus: &str) -> &'static [&'static str] {
        match focus {
            "C08" => &["clone_dropped_then_emit_on_survivor", "multi_producer_interleaved", "emit_refused_full", "rendezvous_accepted_and_delivered"],
            "C09" => &["drop_with_full_queue", "drop_with_empty_queue", "drop_while_worker_stalled", "last_drop_by_producer", "wrapped_buffered_drop_checked", "rendezvous_last_drop_terminated"],
            "C06" => &["flush_through_queuing_sink", "wrapped_buffered_runs"],
            "C10" => &["emit_while_worker_stalled", "emit_refused_full", "emit_accepted_at_cap_minus_one"],
            "C11" => &["panic_fired", "consecutive_panics", "panic_on_first_queued", "panic_on_last_queued", "panic_while_stop_pending"],
            "C15" => &["worker_drained_before_submit_counted", "sampler_read", "quiescent_counters_checked"],
            "C16" => &["handler_invoked", "error_without_handler"],
            _ => &[],
        }
    }

    fn generate(rng: &mut Rng, focus: &str, tier: Tier) -> QCase {
        // thorough tier: half of the cases have programs twice as long and up to five producers
        let deep = tier == Tier::Thorough && rng.split(9).chance(1, 2);
        let mut cfg = rng.split(1);
        let mut prog = rng.split(2);
        let mut flt = rng.split(3);
        let mut sch = rng.split(4);
        // rarely: a large bounded queue (anything that treats large capacities differently, or that
        // leaks capacity, shows only here)
        let big_cap = if matches!(focus, "C10" | "C11" | "C08" | "C09" | "C15") && cfg.chance(1, 100) { Some(*cfg.pick(&[16usize, 32, 64, 128, 256, 1025, 1500, 2049])) } else { None };
        let cap = match cfg.weighted(&[30, 22, 16, 10, 14, if focus == "C20" { 8 } else if matches!(focus, "C08" | "C09" | "C11" | "C15" | "C16") { 5 } else { 0 }]) {
            0 => None,
            1 => Some(1),
            2 => Some(2),
            3 => Some(3),
            4 => Some(8),
            _ => Some(0),
        };
        let cap = if big_cap.is_some() { big_cap } else { cap };
        let handler = match focus {
            "C16" => cfg.chance(8, 10),
            _ => cfg.chance(1, 4),
        };
        let via_builder = cfg.chance(1, 3);
        let n_gates = match focus {
            "C09" | "C10" => cfg.usize_below(3),
            _ => *cfg.pick(&[0usize, 0, 1, 2]),
        };
        let n_prod = cfg.usize_below(if deep { 6 } else { 4 });
        let mut next_id = 0u32;
        let (w_clone, w_drop) = match focus {
            "C08" | "C09" => (14, 12),
            _ => (6, 6),
        };
        let wrapped_buffered = match focus {
            "C06" => Some(*cfg.pick(&[16usize, 24, 64, 512])),
            "C09" => {
                if cfg.chance(1, 3) {
                    Some(*cfg.pick(&[16usize, 64, 512]))
                } else {
                    None
                }
            }
            _ => {
                if cfg.chance(1, 8) {
                    Some(64)
                } else {
                    None
                }
            }
        };
        // flush() through a queuing handle must not cost queue room either (C10)
        let w_flush = if wrapped_buffered.is_some() { 14 } else if focus == "C10" { 10 } else { 2 };
        let sock_full: Vec<usize> = if wrapped_buffered.is_some() && cfg.chance(1, 2) { (0..1 + cfg.usize_below(2)).map(|_| cfg.usize_below(5)).collect() } else { Vec::new() };
        let n_main = prog.usize_below(if deep { 18 } else { 9 });
        let main_ops = gen_prog(&mut prog, n_main, &mut next_id, n_gates, w_clone, w_drop, w_flush);
        let mut producers = Vec::new();
        for _ in 0..n_prod {
            let n = prog.usize_below(if deep { 18 } else { 9 });
            producers.push(gen_prog(&mut prog, n, &mut next_id, n_gates, w_clone, w_drop, w_flush));
        }
        let mut main_ops = main_ops;
        // the empty string is a legal metric: at most one per case
        if cfg.chance(1, 25) {
            let at = cfg.usize_below(main_ops.len() + 1);
            main_ops.insert(at, QOp::EmitEmpty { h: 0 });
        }
        // large queue: panic / stall on the first metrics, then a burst that must fit exactly
        let mut burst_plan: Vec<SinkOutcome> = Vec::new();
        let mut backlog_burst = false;
        let mut panic_storm: Option<(usize, usize)> = None;
        if big_cap.is_none() && (cap.is_none() || cap == Some(8)) && matches!(focus, "C08" | "C11" | "C09" | "C15" | "C16") && cfg.chance(1, 40) {
            // a long backlog behind a stalled worker (a worker that batches shows only here)
            let n = 70 + cfg.below(80) as u32;
            main_ops.push(QOp::Burst { h: 0, first: next_id, n });
            next_id += n;
            burst_plan = vec![if n_gates > 0 { SinkOutcome::Stall(0) } else { SinkOutcome::Slow(3) }];
            backlog_burst = true;
            // half of the long backlogs: a panic storm — 9 … 65 consecutive panics with accepted
            // metrics queued behind them (a worker that gives up after a run of panics, agent10-C09)
            if cfg.chance(1, 2) {
                panic_storm = Some((1 + cfg.usize_below(4), *cfg.pick(&[9usize, 17, 33, 65])));
            }
        }
        if let Some(bc) = big_cap {
            let n = bc as u32 + 2;
            main_ops.push(QOp::Burst { h: 0, first: next_id, n });
            next_id += n;
            burst_plan = vec![SinkOutcome::Panic, if n_gates > 0 { SinkOutcome::Stall(0) } else { SinkOutcome::Ok }];
        }
        let total_emits = next_id as usize;
        // outcome plan
        let (w_err, w_panic, w_slow, w_stall): (u32, u32, u32, u32) = match focus {
            "C11" => (10, 30, 8, if n_gates > 0 { 6 } else { 0 }),
            "C16" => (40, 6, 6, if n_gates > 0 { 4 } else { 0 }),
            "C10" | "C09" => (8, 8, 10, if n_gates > 0 { 30 } else { 0 }),
            _ => (12, 10, 10, if n_gates > 0 { 10 } else { 0 }),
        };
        let quiet = flt.chance(1, 5); // a fifth of the runs are fault-free
        let mut plan = Vec::new();
        let mut prev_panic = false;
        for _ in 0..total_emits {
            let o = if quiet {
                if flt.chance(1, 6) {
                    SinkOutcome::Slow(1 + flt.below(3) as u8)
                } else if flt.chance(1, 8) {
                    SinkOutcome::OkZero
                } else {
                    SinkOutcome::Ok
                }
            } else if prev_panic && focus == "C11" && flt.chance(1, 2) {
                SinkOutcome::Panic
            } else {
                match flt.weighted(&[40, w_err, w_panic, w_slow, w_stall, 5]) {
                    0 => SinkOutcome::Ok,
                    5 => SinkOutcome::OkZero,
                    1 => SinkOutcome::Err(IO_KINDS[flt.usize_below(IO_KINDS.len())].0.to_string()),
                    2 => SinkOutcome::Panic,
                    3 => SinkOutcome::Slow(1 + flt.below(4) as u8),
                    _ => SinkOutcome::Stall(flt.usize_below(n_gates.max(1))),
                }
            };
            prev_panic = o == SinkOutcome::Panic;
            plan.push(o);
        }
        if !burst_plan.is_empty() {
            // the scripted outcomes of the first invocations set the scene for the burst
            for (i, o) in burst_plan.into_iter().enumerate() {
                if i < plan.len() {
                    plan[i] = o;
                }
            }
            // behind the scene-setting outcomes: no further stalls, but panics and errors stay
            let keep_from = if backlog_burst { 1 } else { 2 };
            for o in plan.iter_mut().skip(keep_from) {
                if matches!(o, SinkOutcome::Stall(_)) {
                    *o = SinkOutcome::Ok;
                }
            }
        }
        if let Some((at, len)) = panic_storm {
            for o in plan.iter_mut().skip(at).take(len) {
                *o = SinkOutcome::Panic;
            }
        }
        let sampler = match focus {
            "C15" => *cfg.pick(&[0usize, 2, 4, 6]),
            _ => *cfg.pick(&[0usize, 0, 0, 3]),
        };
        let observer = cfg.chance(if focus == "C09" { 3 } else { 6 }, 10);
        let final_drop = cfg.chance(8, 10);
        let weights: [u32; 5] = match focus {
            "C09" | "C10" => [25, 15, 15, 35, 10],
            "C15" => [30, 20, 15, 10, 25],
            _ => [35, 20, 20, 15, 10],
        };
        let sched = SchedSpec::generate(&mut sch, &weights);
        let flushes = main_ops.iter().chain(producers.iter().flatten()).any(|o| matches!(o, QOp::Flush { .. }));
        let poison = !flushes && wrapped_buffered.is_none() && cfg.chance(1, 3);
        let wide_strings = cfg.chance(1, 8);
        let flush_fails = !poison && wrapped_buffered.is_none() && cfg.chance(1, 3);
        QCase { sched, cap, via_builder, poison, handler, flush_fails, plan, n_gates, main_ops, producers, sampler, observer, final_drop, wrapped_buffered, sock_full, wide_strings }
    }

    fn pin_schedule(case: &QCase, o: &Outcome) -> QCase {
        let mut c = case.clone();
        c.sched.explicit = Some(o.schedule.clone());
        c
    }

    fn execute(case: &QCase, want_trace: bool) -> Outcome {
        let mut out = Outcome::default();
        out.strategy = case.sched.name();
        let mut kc = KConfig::new(case.sched.seed, case.sched.strategy(60));
        kc.record_trace = want_trace;
        kc.step_cap = 60_000;
        let c2 = case.clone();
        let r = Kernel::run(kc, move || sim_main(c2));
        out.steps = r.steps;
        out.contested = r.contested;
        out.sim_time_ns = r.now;
        out.trace_hash = r.trace_hash;
        out.schedule_hash = hash_schedule(&r.schedule);
        out.schedule = r.schedule.clone();
        if let Some(e) = &r.error {
            // a run that does not come to rest is a harness error, never a verdict (the respawn
            // loop of a poisoned wrapped sink is bounded by the sink itself, see ScriptedSink::flush)
            out.harness_error = Some(e.clone());
            return out;
        }
        if want_trace {
            for t in &r.tasks {
                out.trace.push(format!("task {} {:?} anon={} state={:?} label={:?} panicked={:?}", t.id, t.name, t.anon, t.state, t.label, t.panicked));
            }
            for e in &r.trace {
                out.trace.push(format!("step {:>4} task {} {}", e.step, e.task, e.what));
            }
        }
        judge(case, &r.main, &r.tasks, &mut out, want_trace);
        out
    }

    fn shrink(case: &QCase) -> Vec<QCase> {
        let mut v = Vec::new();
        // remove whole producers
        for i in 0..case.producers.len() {
            let mut c = case.clone();
            c.producers.remove(i);
            v.push(c);
        }
        if case.sampler > 0 {
            let mut c = case.clone();
            c.sampler = 0;
            v.push(c);
        }
        // remove single ops
        for i in 0..case.main_ops.len() {
            let mut c = case.clone();
            c.main_ops.remove(i);
            v.push(c);
        }
        for p in 0..case.producers.len() {
            for i in 0..case.producers[p].len() {
                let mut c = case.clone();
                c.producers[p].remove(i);
                v.push(c);
            }
        }
        // simplify the plan
        for i in 0..case.plan.len() {
            if case.plan[i] != SinkOutcome::Ok {
                let mut c = case.clone();
                c.plan[i] = SinkOutcome::Ok;
                v.push(c);
            }
        }
        if case.plan.last() == Some(&SinkOutcome::Ok) {
            let mut c = case.clone();
            while c.plan.last() == Some(&SinkOutcome::Ok) {
                c.plan.pop();
            }
            v.push(c);
        }
        if case.handler {
            let mut c = case.clone();
            c.handler = false;
            v.push(c);
        }
        if case.poison {
            let mut c = case.clone();
            c.poison = false;
            v.push(c);
        }
        if case.flush_fails {
            let mut c = case.clone();
            c.flush_fails = false;
            v.push(c);
        }
        if case.via_builder {
            let mut c = case.clone();
            c.via_builder = false;
            v.push(c);
        }
        if case.observer {
            let mut c = case.clone();
            c.observer = false;
            v.push(c);
        }
        if case.wrapped_buffered.is_some() {
            let mut c = case.clone();
            c.wrapped_buffered = None;
            c.sock_full.clear();
            v.push(c);
        }
        if !case.sock_full.is_empty() {
            let mut c = case.clone();
            c.sock_full.clear();
            v.push(c);
        }
        if case.wide_strings {
            let mut c = case.clone();
            c.wide_strings = false;
            v.push(c);
        }
        for s in case.sched.shrink() {
            let mut c = case.clone();
            c.sched = s;
            v.push(c);
        }
        v
    }

    fn signature(case: &QCase, o: &Outcome, v: &Violation) -> Option<String> {
        let _ = (case, o);
        // signatures are computed by the oracle and embedded in the clause detail as [sig:...]
        v.detail.find("[sig:").map(|i| {
            let rest = &v.detail[i + 5..];
            rest[..rest.find(']').unwrap_or(rest.len())].to_string()
        })
    }
}

/// The channel shim can describe an entry only if its type is one it knows (`Option<String>`,
/// `String`, `Vec<u8>`). A variant of the code that queues something else (an enum, a struct, a
/// boxed or shared string) is just as correct: its entries show up as "?". Such entries are given
/// their identity from what is implementation-independent: a send made by task t inside the step
/// window of t's emit of string s carries s; a FIFO channel hands entries out in the order in which
/// they went in. Entries the shim could describe are left alone (a queued text that differs from
/// the emitted one must stay visible).
fn normalise_chan(mut chan: Vec<ChanEvent>, prod: &[ProdEv]) -> Vec<ChanEvent> {
    // a queue of byte vectors is a queue of metrics too
    for c in chan.iter_mut() {
        if let Some(b) = c.payload.strip_prefix("B:") {
            c.payload = format!("S:{b}");
        }
    }
    if !chan.iter().any(|c| c.payload == "?") {
        return chan;
    }
    let mut fifos: std::collections::BTreeMap<u64, std::collections::VecDeque<String>> = std::collections::BTreeMap::new();
    for c in chan.iter_mut() {
        let is_send = c.op == "try_send" || c.op == "send";
        if is_send && c.payload == "?" {
            if let Some(e) = prod.iter().find(|e| e.what == "emit" && e.task == c.task && e.step_before < c.step && c.step <= e.step_at) {
                c.payload = format!("S:{}", e.s);
            } else {
                // a send outside every emit: the implementation's own signalling (a stop marker)
                c.payload = "NONE".to_string();
            }
        }
        if is_send && c.ok {
            fifos.entry(c.chan).or_default().push_back(c.payload.clone());
        }
        if c.op == "recv" || c.op == "try_recv" {
            if c.ok {
                let p = fifos.entry(c.chan).or_default().pop_front();
                if c.payload == "?" {
                    c.payload = p.unwrap_or_else(|| "?".to_string());
                }
            }
        }
    }
    chan
}

fn judge(case: &QCase, main: &Option<Obs>, end_tasks: &[TaskInfo], out: &mut Outcome, want_trace: bool) {
    let rendezvous = case.cap == Some(0);
    let obs = match main {
        Some(o) => o,
        None => {
            // the harness main task never finished: it is blocked (or unwound) inside an API call
            let t0 = &end_tasks[0];
            if let Some(p) = &t0.panicked {
                out.harness_error = Some(format!("main task panicked: {p}"));
                return;
            }
            let label = t0.label.clone();
            let props: &[&str] = if label.starts_with("emit") {
                &["C10"]
            } else if label.starts_with("drop") {
                &["C09"]
            } else {
                // (no statement says that clone or a counter read never waits: harness error below)
                &[]
            };
            if props.is_empty() || rendezvous {
                if !rendezvous {
                    out.harness_error = Some(format!("main task blocked in phase {label:?}: {:?}", t0.state));
                }
            } else {
                out.violate(props, "queue.caller-blocked", format!("the calling task blocked for ever inside `{label}` ({:?})", t0.state));
            }
            return;
        }
    };
    out.api_calls = obs.prod.len() as u64;
    for o in &case.plan {
        match o {
            SinkOutcome::Err(_) => out.configured("wrapped_sink_error"),
            SinkOutcome::Panic => out.configured("wrapped_sink_panic"),
            SinkOutcome::Slow(_) => out.configured("wrapped_sink_slow"),
            SinkOutcome::Stall(_) => out.configured("wrapped_sink_stall"),
            SinkOutcome::Ok | SinkOutcome::OkZero => {}
        }
    }
    // ---- digest the logs ----
    let mut delivered: Vec<(usize, String, usize)> = Vec::new(); // (k, string, task)
    let mut open_invocation: Option<usize> = None;
    let mut panics_fired = 0u64;
    let mut sink_drops = 0;
    let mut prev_outcome: Option<SinkOutcome> = None;
    let mut panic_streak = 0u32;
    for e in &obs.log {
        match e {
            Ev::SinkEnter { k, s, task, .. } => {
                if let Some(prev) = open_invocation {
                    out.violate(&["C08"], "queue.overlapping-invocations", format!("wrapped sink invoked for #{k} while invocation #{prev} had not returned"));
                }
                open_invocation = Some(*k);
                delivered.push((*k, s.clone(), *task));
                let named = end_tasks.get(*task).map(|t| !t.anon).unwrap_or(true);
                if named {
                    out.violate(&["C10"], "queue.wrapped-sink-on-caller-task", format!("wrapped sink invocation #{k} ({s}) ran on caller task {task}"));
                }
            }
            Ev::SinkExit { outcome, .. } => {
                open_invocation = None;
                match outcome {
                    SinkOutcome::Err(_) => out.fired("wrapped_sink_error"),
                    SinkOutcome::Panic => {
                        out.fired("wrapped_sink_panic");
                        panics_fired += 1;
                        out.probe("panic_fired");
                        panic_streak = if prev_outcome == Some(SinkOutcome::Panic) { panic_streak + 1 } else { 1 };
                        if panic_streak == 17 {
                            out.probe("panic_storm_17_in_a_row");
                        }
                        if prev_outcome == Some(SinkOutcome::Panic) {
                            out.probe("consecutive_panics");
                        }
                    }
                    SinkOutcome::Slow(_) => out.fired("wrapped_sink_slow"),
                    SinkOutcome::Stall(_) => out.fired("wrapped_sink_stall"),
                    SinkOutcome::Ok | SinkOutcome::OkZero => {}
                }
                prev_outcome = Some(outcome.clone());
            }
            Ev::Handler { .. } => {}
            Ev::SinkDrop => sink_drops += 1,
            Ev::FlushPanic { .. } => {}
        }
    }
    // accepted strings in channel-acceptance order
    let accepted: Vec<(u64, String, usize)> = obs
        .chan
        .iter()
        .filter(|e| (e.op == "try_send" || e.op == "send") && e.ok && e.payload.starts_with("S:"))
        .map(|e| (e.step, e.payload[2..].to_string(), e.task))
        .collect();
    let acked: Vec<&ProdEv> = obs.prod.iter().filter(|e| e.what == "emit" && matches!(e.res, ApiRes::Ok(_))).collect();
    let any_stop_sent = obs.chan.iter().any(|e| e.payload == "NONE");

    // state hashes: (queue length, #delivered, #handles?) at each channel event
    {
        let mut d = 0u64;
        let mut i = 0;
        for e in &obs.chan {
            while i < delivered.len() && false {
                i += 1;
            }
            if e.op == "recv" {
                d += 1;
            }
            let mut h = Fnv::default();
            h.u64(e.len_after as u64);
            h.u64(d.min(6));
            h.u64(e.cap.map(|c| c as u64 + 1).unwrap_or(0));
            h.u64(e.ok as u64);
            h.u64(if e.payload == "NONE" { 1 } else { 0 });
            out.state_hashes.push(h.0);
        }
    }

    // ---- no caller ever panics (C10 / C20) ----
    for e in &obs.prod {
        if let ApiRes::Panicked(p) = &e.res {
            let props: &[&str] = match e.what.as_str() {
                "emit" => &["C10", "C20"],
                "drop" => &["C09", "C20"],
                "read" => &["C15", "C20"],
                _ => &["C20"],
            };
            out.violate(props, "queue.caller-panicked", format!("{} on task {} panicked: {p}", e.what, e.task));
        }
    }
    // unexpected panics of any task (injected ones are expected on anonymous tasks only)
    for t in end_tasks {
        if let Some(p) = &t.panicked {
            if !p.starts_with("injected panic#") {
                out.violate(&["C20", "C11"], "queue.unexpected-panic", format!("task {} ({}) panicked: {p}", t.id, t.name));
            } else if !t.anon {
                out.violate(&["C10"], "queue.panic-reached-caller", format!("an injected wrapped-sink panic unwound caller task {} ({})", t.id, t.name));
            }
        }
    }
    if rendezvous {
        // capacity 0 (rendezvous): C10 is stated for capacities >= 1 and the occupancy-based
        // clauses do not apply; delivery, termination, panic survival, counters and the handler do
        out.probe("rendezvous_judged");
    }

    'c10: {
        if rendezvous {
            break 'c10;
        }
    // "the sink keeps accepting metrics" after a panic is C11's as well
    let panic_c10: Vec<&str> = if panics_fired > 0 { vec!["C10", "C11"] } else { vec!["C10"] };
    // ---- C10: emit never waits, result is a function of queue room, capacity never exceeded ----
    // The oracles below read the queue through the hooked channel. A variant whose queue is
    // something else (its own lock-protected deque, a std channel) leaves no trace there: that is
    // "cannot observe", not "wrong".
    if obs.prod.iter().any(|e| e.what == "emit" && matches!(e.res, ApiRes::Ok(_))) && !obs.chan.iter().any(|c| (c.op == "try_send" || c.op == "send") && c.payload.starts_with("S:")) {
        out.harness_error = Some("the queue is not observable: emits were acknowledged but no metric was ever put on a hooked channel (a variant that queues through something the shims do not see?)".to_string());
        return;
    }
    // occupancy counted in METRICS (entries of any other kind a variant may put on the same channel
    // do not make the queue "hold its capacity"): accepted and not yet taken off by the worker
    let metric_occ: Vec<(u64, usize)> = {
        // per channel (a variant may have more than one channel that carries strings); the entry
        // of an event is the occupancy of the fullest channel after it
        let mut occ: std::collections::BTreeMap<u64, i64> = std::collections::BTreeMap::new();
        let mut v = Vec::new();
        for c in &obs.chan {
            let is_send = c.op == "try_send" || c.op == "send";
            if is_send && c.ok && c.payload.starts_with("S:") {
                *occ.entry(c.chan).or_insert(0) += 1;
            } else if c.op == "recv" && c.ok && c.payload.starts_with("S:") {
                *occ.entry(c.chan).or_insert(0) -= 1;
            }
            v.push((c.step, occ.values().copied().max().unwrap_or(0).max(0) as usize));
        }
        v
    };
    // accepted and not yet handed to the wrapped sink (an entry the worker has taken off the channel
    // but not yet handed over still counts: a variant that keeps its own count may well count it)
    let outstanding_max = |lo: u64, hi: u64| -> usize {
        let mut ev: Vec<(u64, i32)> = Vec::new();
        for c in obs.chan.iter().filter(|c| (c.op == "try_send" || c.op == "send") && c.ok && c.payload.starts_with("S:")) {
            ev.push((c.step, 1));
        }
        for e in &obs.log {
            if let Ev::SinkEnter { step, .. } = e {
                ev.push((*step, -1));
            }
        }
        // within one step number: arrivals before departures (lenient)
        ev.sort_by_key(|(s, d)| (*s, -*d));
        let mut cur: i64 = 0;
        let mut best: i64 = 0;
        let mut seen_lo = false;
        for (s, d) in ev {
            if s > hi {
                break;
            }
            if s >= lo && !seen_lo {
                seen_lo = true;
                best = best.max(cur);
            }
            cur += d as i64;
            if s >= lo {
                best = best.max(cur);
            }
        }
        if !seen_lo {
            best = best.max(cur);
        }
        best.max(0) as usize
    };
    // (several events can carry the same step number: look events up by their position in the log)
    let occ_before_step = |step: u64| -> usize { metric_occ.iter().filter(|(s, _)| *s <= step).last().map(|(_, o)| *o).unwrap_or(0) };
    for e in obs.prod.iter().filter(|e| e.what == "emit") {
        if e.gate_closed {
            out.probe("emit_while_worker_stalled");
        }
        if e.blocks > 0 {
            out.violate(&["C10"], "queue.emit-blocked", format!("emit {} on task {} entered a blocked state {} time(s)", e.s, e.task, e.blocks));
        }
        // the real emit takes 2 steps; a variant that takes short locks needs a few more, and a
        // few per wait for such a lock; a loop that polls for queue room needs unboundedly many
        // (a failed compare-exchange of a lock-free retry loop costs a step or two as well; a loop
        // that polls with plain loads gets no such allowance)
        if e.steps > 12 + 8 * e.lock_waits + 3 * e.cas_failures.min(8) {
            out.violate(&["C10"], "queue.emit-not-prompt", format!("emit {} took {} scheduling steps of its own task ({} waits for a lock, {} failed compare-exchanges)", e.s, e.steps, e.lock_waits, e.cas_failures));
        }
        // H: whatever the wrapped sink answers stays on the background thread
        if let ApiRes::Err(msg) = &e.res {
            if msg.contains("fault#") {
                out.violate(&["C10"], "queue.sink-error-surfaced-in-emit", format!("emit {} returned an error of the wrapped sink: {msg}", e.s));
            }
        }
        // the channel event of this emit
        let ce_idx = obs.chan.iter().position(|c| (c.op == "try_send" || c.op == "send") && c.payload.starts_with("S:") && c.payload[2..] == e.s && c.task == e.task);
        let ce = ce_idx.map(|i| &obs.chan[i]);
        match (&e.res, ce) {
            (ApiRes::Ok(n), Some(c)) => {
                if !c.ok {
                    out.violate(&["C10", "C08"], "queue.ok-but-not-queued", format!("emit {} returned Ok but the queue refused it", e.s));
                }
                if *n != e.s.len() {
                    out.violate(&["C10"], "queue.emit-ok-len", format!("emit {} returned Ok({n}), expected the byte length {}", e.s, e.s.len()));
                }
                if let Some(cap) = case.cap {
                    if c.len_after == cap {
                        out.probe("emit_accepted_at_cap_minus_one");
                    }
                }
            }
            (ApiRes::Ok(_), None) => {
                out.violate(&["C10", "C08"], "queue.ok-but-not-queued", format!("emit {} returned Ok but was never put on the queue", e.s));
            }
            (ApiRes::Err(msg), Some(c)) => {
                if c.ok {
                    out.violate(&["C10"], "queue.err-but-queued", format!("emit {} returned Err({msg}) although it was queued", e.s));
                } else {
                    out.probe("emit_refused_full");
                    match case.cap {
                        None => out.violate(&panic_c10, "queue.unbounded-refused", format!("an unbounded queue refused {}: {msg}", e.s)),
                        Some(cap) => {
                            let held = ce_idx.map(|i| metric_occ[i].1).unwrap_or(0).max(outstanding_max(e.step_before, e.step_at));
                            if held < cap {
                                out.violate(&panic_c10, "queue.refused-with-room", format!("emit {} was refused ({msg}) while the queue held {held} metric(s) of {cap} ({} entries of any kind)", e.s, c.len_after));
                            }
                        }
                    }
                }
            }
            (ApiRes::Err(msg), None) => {
                // refused without a queue operation of its own (a variant that keeps its own
                // bookkeeping): judge by the occupancy the channel trace shows during the call
                out.probe("emit_refused_full");
                match case.cap {
                    None => out.violate(&panic_c10, "queue.unbounded-refused", format!("an unbounded queue refused {}: {msg}", e.s)),
                    Some(cap) => {
                        let before = occ_before_step(e.step_before);
                        let during: Vec<usize> = metric_occ.iter().filter(|(s, _)| *s > e.step_before && *s <= e.step_at).map(|(_, o)| *o).collect();
                        let max_occ = during.iter().copied().chain(std::iter::once(before)).max().unwrap_or(0).max(outstanding_max(e.step_before, e.step_at));
                        if max_occ < cap {
                            out.violate(&panic_c10, "queue.refused-with-room", format!("emit {} was refused ({msg}) while the queue never held more than {max_occ} of {cap} during the call", e.s));
                        }
                    }
                }
            }
            _ => {}
        }
    }
    if let Some(cap) = case.cap {
        // only the channel(s) that carry metrics: a variant may use further channels of its own
        // counted in metrics: a variant may reserve a slot for a marker of its own
        if let Some((step, held)) = metric_occ.iter().find(|(_, o)| *o > cap) {
            out.violate(&["C10"], "queue.capacity-exceeded", format!("at step {step} the queue held {held} metrics, capacity given to the constructor is {cap}"));
        }
    }

    // the queue is what has been accepted and not yet handed to the wrapped sink: whatever the
    // worker has taken off the channel but not yet handed over still counts (one entry may be in
    // transit between the channel and the sink)
    if let Some(cap) = case.cap {
        let mut events: Vec<(u64, i32)> = Vec::new();
        for c in obs.chan.iter().filter(|c| (c.op == "try_send" || c.op == "send") && c.ok && c.payload.starts_with("S:")) {
            events.push((c.step, 1));
        }
        for e in &obs.log {
            if let Ev::SinkEnter { step, .. } = e {
                events.push((*step, -1));
            }
        }
        events.sort();
        let mut outstanding: i64 = 0;
        for (step, d) in events {
            outstanding += d as i64;
            if outstanding > cap as i64 + 1 {
                out.violate(&["C10"], "queue.capacity-exceeded", format!("at step {step} {outstanding} accepted metrics had not yet been handed to the wrapped sink; the capacity given to the constructor is {cap} (one more may be in transit)"));
                break;
            }
        }
    }

    }
    // ---- blocked callers at the end ----
    for t in &obs.final_tasks {
        if !t.anon && t.id != 0 && t.name != "gatekeeper" {
            if let TState::Blocked { .. } = t.state {
                let props: &[&str] = if t.label.starts_with("emit") {
                    &["C10"]
                } else if t.label.starts_with("drop") {
                    &["C09"]
                } else {
                    &["C10"]
                };
                out.violate(props, "queue.caller-blocked", format!("task {} ({}) is blocked for ever inside `{}`", t.id, t.name, t.label));
            }
        }
    }
    // ---- blocked callers at a harness-made idle point ----
    // Every other task is blocked or finished there and (in the first snapshot) the gates are
    // still closed: a caller sitting inside emit / drop / clone / a counter read at that moment
    // is waiting for something only the stalled wrapped sink will release. This is also what
    // judges a wait for a lock (not counted as a blocked state of the call itself, because a
    // short wait for a lock another producer holds is not a wait for the wrapped sink).
    for s in &obs.snaps {
        for t in &s.tasks {
            if !t.anon && t.id != 0 && t.name != "gatekeeper" {
                if let TState::Blocked { .. } = t.state {
                    let props: Option<&[&str]> = if t.label.starts_with("emit") {
                        Some(&["C10"])
                    } else if t.label.starts_with("drop") {
                        Some(&["C09"])
                    } else {
                        // (no statement says that clone or a counter read never waits)
                        None
                    };
                    if let Some(props) = props {
                        out.violate(props, "queue.caller-blocked", format!("at the idle point '{}' task {} ({}) is blocked inside `{}` ({:?})", s.label, t.id, t.name, t.label, t.state));
                    }
                }
            }
        }
    }
    // ---- drop never blocks ----
    for e in obs.prod.iter().filter(|e| e.what == "drop") {
        if e.blocks > 0 {
            out.violate(&["C09"], "queue.drop-blocked", format!("dropping a handle on task {} entered a blocked state", e.task));
        }
    }

    // ---- C08 / C09 / C11: delivery ----
    let d_strings: Vec<&String> = delivered.iter().map(|d| &d.1).collect();
    let a_strings: Vec<&String> = accepted.iter().map(|a| &a.1).collect();
    let panic_props = |base: &[&'static str]| -> Vec<&'static str> {
        let mut v = base.to_vec();
        if panics_fired > 0 {
            v.push("C11");
        }
        v
    };
    // every acked emit must be in the accepted list (already checked per emit); every delivered
    // string must have been accepted, at most once
    {
        let mut seen = std::collections::BTreeSet::new();
        for d in &d_strings {
            if !a_strings.contains(d) {
                out.violate(&panic_props(&["C08"]), "queue.delivered-never-accepted", format!("wrapped sink received {d:?} which no emit had queued"));
            }
            if !seen.insert((*d).clone()) {
                // a metric handed over again is also a worker that does not move on after a failure (C09)
                let mut p = panic_props(&["C08"]);
                if obs.all_dropped {
                    p.push("C09");
                }
                out.violate(&p, "queue.delivered-twice", format!("wrapped sink received {d:?} twice"));
            }
        }
    }
    let missing: Vec<&String> = a_strings.iter().filter(|a| !d_strings.contains(a)).cloned().collect();
    if !missing.is_empty() {
        let mut props = vec!["C08"];
        if obs.all_dropped {
            props.push("C09");
        }
        if panics_fired > 0 {
            props.push("C11");
        }
        // signature for the known-findings file: was a stop marker consumed while a handle was alive?
        let first_missing = missing[0];
        let acc_step = accepted.iter().find(|a| &a.1 == first_missing).map(|a| a.0).unwrap_or(0);
        // F1 signature: the worker consumed a stop marker and a metric was accepted afterwards
        // (i.e. a handle was still alive and emitting when the worker was told to stop)
        let stop_recv_step = obs.chan.iter().find(|c| c.op == "recv" && c.payload == "NONE").map(|c| c.step);
        let drops_before: usize = obs.prod.iter().filter(|e| e.what == "drop" && e.step_at < acc_step).count();
        let accepted_after_stop = stop_recv_step.map(|s| accepted.iter().any(|a| a.0 > s)).unwrap_or(false);
        let all_missing_after_stop_sent = {
            let first_stop_sent = obs.chan.iter().find(|c| c.payload == "NONE" && c.ok && c.op != "recv").map(|c| c.step);
            first_stop_sent.map(|s| missing.iter().all(|m| accepted.iter().find(|a| &&a.1 == m).map(|a| a.0 > s).unwrap_or(false))).unwrap_or(false)
        };
        let sig = if (accepted_after_stop || all_missing_after_stop_sent) && drops_before > 0 { " [sig:F1-stop-on-non-last-drop]" } else { "" };
        out.violate(
            &props,
            "queue.accepted-never-delivered",
            format!("{} accepted metric(s) never reached the wrapped sink, first {first_missing:?} (accepted at step {acc_step}; {drops_before} handle drop(s) before it; delivered {} of {}){sig}", missing.len(), d_strings.len(), a_strings.len()),
        );
    } else if d_strings != a_strings && d_strings.len() == a_strings.len() {
        out.violate(&panic_props(&["C08"]), "queue.order", format!("delivery order {:?} differs from acceptance order {:?}", d_strings, a_strings));
    }
    let _ = acked;
    if rendezvous && missing.is_empty() && !a_strings.is_empty() {
        out.probe("rendezvous_accepted_and_delivered");
    }

    // a wrapped sink whose flush() panics (poisoned lock): nobody asked for a flush in these cases,
    // so a correct sink never gets there; one that flushes the wrapped sink on its own when it
    // stops may meet the panic once - but eight times in a row on background threads means the
    // worker is restarted again and again with nothing left to do, and with a sink that stays
    // poisoned it would never terminate
    {
        let all_fp = obs.log.iter().filter(|e| matches!(e, Ev::FlushPanic { .. })).count();
        if all_fp > 0 {
            out.probe("poisoned_flush_reached");
        }
        // only those after the last metric was handed over (nothing left to do), and only when
        // every handle is gone (the worker is supposed to terminate)
        let last_enter = obs.log.iter().rposition(|e| matches!(e, Ev::SinkEnter { .. })).map(|i| i + 1).unwrap_or(0);
        let fp: Vec<usize> = obs.log[last_enter..].iter().filter_map(|e| if let Ev::FlushPanic { task } = e { Some(*task) } else { None }).collect();
        if obs.all_dropped && fp.len() >= 8 {
            out.violate(&["C09", "C11"], "queue.worker-respawn-loop", format!("the wrapped sink's flush() was called and panicked {} times in a row on background tasks {:?}: the worker is restarted again and again with nothing left to do and would never terminate", fp.len(), fp));
        }
    }
    // ---- C09: after the last drop the worker terminates and the wrapped sink is dropped ----
    if obs.all_dropped {
        let workers_alive: Vec<&TaskInfo> = obs.final_tasks.iter().filter(|t| t.anon && t.state != TState::Finished).collect();
        if !workers_alive.is_empty() {
            // signature: the stop marker of the last drop was refused because the queue was full
            let last_stop = obs.chan.iter().filter(|c| c.payload == "NONE" && c.op == "try_send").last();
            let sig = match last_stop {
                Some(c) if !c.ok => " [sig:F2-stop-marker-refused-queue-full]",
                _ => "",
            };
            out.violate(
                &panic_props(&["C09"]),
                "queue.worker-not-terminated",
                format!("all handles are dropped but background task(s) {:?} still wait on the queue ({:?}){sig}", workers_alive.iter().map(|t| t.id).collect::<Vec<_>>(), workers_alive[0].state),
            );
        } else if sink_drops != 1 {
            out.violate(&panic_props(&["C09"]), "queue.wrapped-sink-not-dropped", format!("all handles are dropped and the background thread ended, but the wrapped sink was dropped {sink_drops} times (expected once)"));
        }
        if rendezvous && workers_alive.is_empty() && sink_drops == 1 {
            out.probe("rendezvous_last_drop_terminated");
        }
        // probes on the state at the time of the last drop (implementation independent)
        if let Some(ld) = obs.prod.iter().filter(|e| e.what == "drop").max_by_key(|e| e.step_at) {
            let occupancy = obs.chan.iter().filter(|c| c.step <= ld.step_before && c.payload != "NONE" || c.step < ld.step_before).last().map(|c| c.len_after).unwrap_or(0);
            match case.cap {
                Some(cap) if cap >= 1 && occupancy >= cap => out.probe("drop_with_full_queue"),
                _ => {}
            }
            if occupancy == 0 {
                out.probe("drop_with_empty_queue");
            }
            if ld.task != 0 {
                out.probe("last_drop_by_producer");
            }
            // was the worker stalled inside the wrapped sink at that moment?
            let mut open: Option<(u64, SinkOutcome)> = None;
            for e in &obs.log {
                match e {
                    Ev::SinkEnter { k, step, .. } if *step <= ld.step_before => open = Some((*step, case.plan.get(*k).cloned().unwrap_or(SinkOutcome::Ok))),
                    Ev::SinkExit { step, .. } if *step <= ld.step_before => open = None,
                    _ => {}
                }
            }
            if let Some((_, SinkOutcome::Stall(_))) = open {
                out.probe("drop_while_worker_stalled");
            }
            if open.is_some() && !case.sock_full.is_empty() {
                out.probe("drop_while_worker_inside_buffered_sink");
            }
            if obs.log.iter().any(|e| matches!(e, Ev::SinkExit { outcome: SinkOutcome::Panic, step, .. } if *step > ld.step_at)) {
                out.probe("panic_while_stop_pending");
            }
        }
    } else if sink_drops > 0 {
        out.violate(&["C09"], "queue.wrapped-sink-dropped-early", "the wrapped sink was dropped while a handle is still alive".to_string());
    }
    if obs.snaps.first().map(|s| s.tasks.iter().any(|t| t.anon && matches!(t.state, TState::Blocked { .. }) && t.label.is_empty())).unwrap_or(false) {
        // a worker was blocked at the first idle point
    }
    // ---- a real buffered sink behind the queue: what reached the wire (C06 through the wrapper, C09) ----
    if case.wrapped_buffered.is_some() {
        out.probe("wrapped_buffered_runs");
        // metrics the buffered sink accepted: delivered with an outcome that delegates to it
        let handed: Vec<(usize, &String, u64)> = obs
            .log
            .iter()
            .filter_map(|e| match e {
                Ev::SinkExit { k, outcome, step } if matches!(outcome, SinkOutcome::Ok | SinkOutcome::OkZero | SinkOutcome::Slow(_) | SinkOutcome::Stall(_)) => {
                    delivered.iter().find(|d| d.0 == *k).map(|d| (*k, &d.1, *step))
                }
                _ => None,
            })
            .collect();
        let on_wire = |text: &str, by_step: u64| -> usize {
            let needle = format!("{text}\n");
            // either as a terminated line inside a batch, or alone (a metric larger than the buffer)
            obs.ledger.iter().filter(|r| r.result.is_ok() && r.step <= by_step && (find_sub(&r.payload, needle.as_bytes()) || r.payload == text.as_bytes())).count()
        };
        // flush barrier through the queuing handle
        for f in obs.prod.iter().filter(|e| e.what == "flush" && matches!(e.res, ApiRes::Unit)) {
            out.probe("flush_through_queuing_sink");
            for (k, text, exit_step) in &handed {
                if text.is_empty() {
                    continue; // the empty metric cannot be searched for on the wire
                }
                if *exit_step < f.step_before && on_wire(text, f.step_at) == 0 {
                    out.violate(
                        &["C06"],
                        "queue.flush-ok-but-not-written",
                        format!("flush through the queuing sink returned Ok at step {} but metric {text:?} (handed to the buffered sink as #{k}, which returned at step {exit_step}) was not on the wire", f.step_at),
                    );
                    break;
                }
            }
        }
        // after the last drop the wrapped buffered sink is dropped and must have flushed the rest
        if obs.all_dropped && obs.final_tasks.iter().all(|t| !t.anon || t.state == TState::Finished) {
            for (k, text, _) in &handed {
                if text.is_empty() {
                    continue;
                }
                let n = on_wire(text, u64::MAX);
                if n != 1 {
                    out.violate(
                        &panic_props(&["C09"]),
                        "queue.wrapped-buffered-sink-not-flushed",
                        format!("all handles are dropped and the background thread ended, but metric {text:?} (#{k}) accepted by the wrapped buffered sink is on the wire {n} times"),
                    );
                    break;
                }
            }
            out.probe("wrapped_buffered_drop_checked");
        }
    }
    // clone dropped, then emit on a surviving handle
    {
        let mut dropped_at: Option<u64> = None;
        for e in &obs.prod {
            if e.what == "drop" && dropped_at.is_none() {
                dropped_at = Some(e.step_at);
            }
            if e.what == "emit" && matches!(e.res, ApiRes::Ok(_)) && dropped_at.map(|d| d < e.step_at).unwrap_or(false) {
                out.probe("clone_dropped_then_emit_on_survivor");
                break;
            }
        }
        let producers: std::collections::BTreeSet<usize> = accepted.iter().map(|a| a.2).collect();
        if producers.len() >= 2 {
            // interleaved if the acceptance order is not grouped by task
            let mut changes = 0;
            for w in accepted.windows(2) {
                if w[0].2 != w[1].2 {
                    changes += 1;
                }
            }
            if changes >= producers.len() {
                out.probe("multi_producer_interleaved");
            }
        }
    }
    // panic probes
    if panics_fired > 0 {
        if let Some((k0, _, _)) = delivered.first() {
            if case.plan.get(*k0) == Some(&SinkOutcome::Panic) {
                out.probe("panic_on_first_queued");
            }
        }
        if let Some((kl, _, _)) = delivered.last() {
            if case.plan.get(*kl) == Some(&SinkOutcome::Panic) {
                out.probe("panic_on_last_queued");
            }
        }
    }

    // ---- C11 / C15: counters at quiescent points ----
    for s in &obs.snaps {
        if let Some(c) = &s.counters {
            // every producer must be idle-finished for the counts to be comparable (the
            // gatekeeper is a harness task that never touches the sink)
            let producers_done = s.tasks.iter().all(|t| t.anon || t.id == 0 || t.name == "gatekeeper" || t.state == TState::Finished);
            if !producers_done {
                continue;
            }
            out.probe("quiescent_counters_checked");
            if c.submitted != s.acks {
                out.violate(&["C15"], "queue.submitted-count", format!("at '{}': submitted() = {} but {} emits returned Ok", s.label, c.submitted, s.acks));
            }
            if c.drained != s.sink_enters {
                out.violate(&["C15"], "queue.drained-count", format!("at '{}': drained() = {} but the wrapped sink was handed {} metrics", s.label, c.drained, s.sink_enters));
            }
            if c.queued != c.submitted.saturating_sub(c.drained) || c.drained > c.submitted {
                out.violate(&["C15"], "queue.queued-count", format!("at '{}': queued() = {} with submitted = {} and drained = {}", s.label, c.queued, c.submitted, c.drained));
            }
            if c.panics != s.panics_fired {
                out.violate(&["C11"], "queue.panic-count", format!("at '{}': panics() = {} but {} injected panics fired", s.label, c.panics, s.panics_fired));
            }
        }
    }
    for (q, s) in &obs.samples {
        out.probe("sampler_read");
        if q > s || *q >= (1u64 << 63) {
            out.violate(&["C15"], "queue.queued-out-of-range", format!("a concurrent reader saw queued() = {q} and then submitted() = {s}"));
        }
    }
    // the schedule in which the worker drains before the producer has counted
    {
        // drained increments happen right after a recv; submitted right after a send: look for a
        // recv of a string whose sender had not yet taken its next step
        for (i, c) in obs.chan.iter().enumerate() {
            if c.op == "recv" && c.payload.starts_with("S:") {
                if let Some(j) = obs.chan[..i].iter().rposition(|s| s.payload == c.payload && s.ok && s.op != "recv") {
                    if c.step.saturating_sub(obs.chan[j].step) <= 2 {
                        out.probe("worker_drained_before_submit_counted");
                        break;
                    }
                }
            }
        }
    }

    // ---- C16: the error handler sees each failure exactly once, on the worker, before the next metric ----
    {
        let mut i = 0;
        let log = &obs.log;
        let mut pending_err: Option<(usize, usize)> = None; // (k, task) awaiting its handler call
        while i < log.len() {
            match &log[i] {
                Ev::SinkEnter { k, task, .. } => {
                    if let Some((pk, _)) = pending_err {
                        if case.handler {
                            out.violate(&["C16"], "queue.handler-missing", format!("wrapped sink failed for invocation #{pk} but the handler had not been called when invocation #{k} started"));
                        }
                    }
                    pending_err = None;
                    let _ = task;
                }
                Ev::SinkExit { k, outcome, .. } => {
                    // C16 is about queued metrics: an invocation that did not come through the queue is C10's business
                    let queued = delivered.iter().find(|d| d.0 == *k).map(|d| a_strings.contains(&&d.1)).unwrap_or(false);
                    if let (SinkOutcome::Err(_), true) = (outcome, queued) {
                        let task = delivered.iter().find(|d| d.0 == *k).map(|d| d.2).unwrap_or(usize::MAX);
                        pending_err = Some((*k, task));
                        if !case.handler {
                            out.probe("error_without_handler");
                        }
                    }
                }
                Ev::Handler { kind, msg, task } => {
                    if !case.handler {
                        out.violate(&["C16"], "queue.handler-unexpected", format!("a handler ran ({msg}) although none was configured"));
                    } else {
                        out.probe("handler_invoked");
                        match pending_err {
                            Some((k, t)) => {
                                // "before the next metric is processed": no other invocation may have
                                // started between the start of the failing one and this handler call
                                let start = log.iter().position(|e| matches!(e, Ev::SinkEnter { k: kk, .. } if *kk == k)).unwrap_or(i);
                                if let Some(Ev::SinkEnter { k: other, .. }) = log[start + 1..i].iter().find(|e| matches!(e, Ev::SinkEnter { .. })) {
                                    out.violate(&["C16"], "queue.handler-after-next-metric", format!("metric #{other} was handed to the wrapped sink before the failure of #{k} reached the error handler"));
                                }
                                let want_kind = match case.plan.get(k) {
                                    Some(SinkOutcome::Err(kd)) => kd.clone(),
                                    _ => String::new(),
                                };
                                if *msg != format!("fault#{k}") || *kind != want_kind {
                                    out.violate(&["C16"], "queue.handler-wrong-error", format!("handler received {kind}:{msg}, the wrapped sink had returned {want_kind}:fault#{k}"));
                                }
                                if *task != t {
                                    out.violate(&["C16"], "queue.handler-wrong-thread", format!("handler for invocation #{k} ran on task {task}, the wrapped sink on task {t}"));
                                }
                                pending_err = None;
                            }
                            None => {
                                out.violate(&["C16"], "queue.handler-spurious", format!("handler called with {kind}:{msg} although no failure was outstanding (called twice, or for a metric the sink accepted)"));
                            }
                        }
                    }
                }
                Ev::SinkDrop | Ev::FlushPanic { .. } => {}
            }
            i += 1;
        }
        if let Some((pk, _)) = pending_err {
            if case.handler {
                out.violate(&["C16"], "queue.handler-missing", format!("wrapped sink failed for invocation #{pk} but the handler was never called"));
            }
        }
    }

    if want_trace {
        out.trace.push("---- wrapped sink / handler log ----".into());
        for e in &obs.log {
            out.trace.push(format!("  {e:?}"));
        }
        out.trace.push("---- caller log ----".into());
        for e in &obs.prod {
            out.trace.push(format!("  task {} {} {} -> {:?} (own steps {}, blocks {}, at step {})", e.task, e.what, e.s, e.res, e.steps, e.blocks, e.step_at));
        }
        out.trace.push("---- channel log ----".into());
        for c in &obs.chan {
            out.trace.push(format!("  step {} task {} {} ok={} len_after={} {}", c.step, c.task, c.op, c.ok, c.len_after, c.payload));
        }
        for s in &obs.snaps {
            out.trace.push(format!("snapshot '{}': counters={:?} acks={} sink_enters={} panics_fired={}", s.label, s.counters, s.acks, s.sink_enters, s.panics_fired));
        }
    }
}

fn find_sub(h: &[u8], n: &[u8]) -> bool {
    !n.is_empty() && h.windows(n.len()).any(|w| w == n)
}
