//! E8 `sharedclient` — C03 under concurrency: ONE real `StatsdClient` shared by 2–4 simulated
//! caller threads. The sink answers per metric (keyed by the unique metric key, so the answer does
//! not depend on the schedule) and contains scheduling points, as does the error handler: any task
//! can be suspended in the middle of its emit or of its handler invocation while the others run
//! whole calls. Oracle, per task and per call: exactly that task's metric handed over once, the
//! result / handler invocation tells the truth about exactly that metric, the handler runs on the
//! calling task exactly once per failed quiet send — whatever the other tasks are doing meanwhile.

use crate::common::*;
use crate::e1::{call_valid, do_call, err_parts, gen_call, hostile_string, CallOut, SfCall, SinkAns};
use crate::linemodel::ErrId;
use cadence::prelude::*;
use cadence::{MetricError, MetricSink, StatsdClient};
use cadence_dsim::kernel::{self, KConfig, Kernel};
use cadence_dsim::rng::{Fnv, Rng};
use cadence_dsim::thread as sthread;
use serde::{Deserialize, Serialize};
use std::collections::{BTreeMap, BTreeSet};
use std::io;
use std::panic::{catch_unwind, resume_unwind, AssertUnwindSafe};
use std::sync::{Arc, Mutex};

#[derive(Clone, Debug, Serialize, Deserialize)]
pub struct ShCall {
    pub call: SfCall,
    pub ans: SinkAns,
}

#[derive(Clone, Debug, Serialize, Deserialize)]
pub struct ShCase {
    pub sched: SchedSpec,
    pub prefix: String,
    pub default_tags: Vec<(Option<String>, String)>,
    pub handler: bool,
    /// scheduling points inside the handler (a handler that "takes a little time")
    pub handler_yields: u8,
    /// scheduling points inside the sink's emit
    pub sink_yields: u8,
    /// the handler reports with a quiet send on a second, healthy client
    pub reentrant_handler: bool,
    /// the handler reports with a quiet send on the SAME client (once per failure, per task)
    pub nested_same_client: bool,
    pub tasks: Vec<Vec<ShCall>>,
}

pub struct E8;

#[derive(Clone, Debug)]
struct EmitRec {
    text: String,
    accepted: bool,
    enter: u64,
    exit: u64,
}

#[derive(Clone, Debug)]
struct HandRec {
    kind: String,
    src: Option<ErrId>,
    disp: String,
    enter: u64,
    exit: u64,
}

#[derive(Default)]
struct Logs {
    emits: BTreeMap<usize, Vec<EmitRec>>,
    handler: BTreeMap<usize, Vec<HandRec>>,
    /// emits whose text matched no key (must not happen)
    strays: Vec<String>,
}

struct KeyedSink {
    logs: Arc<Mutex<Logs>>,
    /// (needle "<key>:", answer)
    answers: Vec<(String, SinkAns)>,
    yields: u8,
}

fn key_of(t: usize, ci: usize) -> String {
    format!("t{t}c{ci}q")
}

impl MetricSink for KeyedSink {
    fn emit(&self, metric: &str) -> io::Result<usize> {
        let me = kernel::current_task().unwrap_or(0);
        let enter = kernel::steps();
        for _ in 0..self.yields {
            kernel::yield_now();
        }
        let found = self.answers.iter().find(|(needle, _)| metric.contains(needle.as_str()));
        let (ans, key) = match found {
            Some((needle, a)) => (a.clone(), needle[..needle.len() - 1].to_string()),
            None => {
                if !metric.contains("hnq") {
                    self.logs.lock().unwrap().strays.push(metric.to_string());
                }
                (SinkAns::OkLen, String::new())
            }
        };
        let (accepted, res) = match ans {
            SinkAns::OkLen => (true, Ok(metric.len())),
            SinkAns::OkZero => (true, Ok(0)),
            SinkAns::OkArbitrary(n) => (true, Ok(n)),
            SinkAns::Err(k) => (false, Err(io::Error::new(kind_by_name(&k), format!("fault#{key}")))),
        };
        kernel::yield_now();
        let exit = kernel::steps();
        self.logs.lock().unwrap().emits.entry(me).or_default().push(EmitRec { text: metric.to_string(), accepted, enter, exit });
        res
    }
}

#[derive(Clone, Debug)]
struct CallRec {
    task: usize,
    ci: usize,
    res: CallOut,
    emits: Vec<EmitRec>,
    handler: Vec<HandRec>,
    invoked: u64,
    returned: u64,
}

fn call<R>(f: impl FnOnce() -> R) -> Result<R, String> {
    match catch_unwind(AssertUnwindSafe(f)) {
        Ok(r) => Ok(r),
        Err(p) => {
            if kernel::is_abort(&*p) {
                resume_unwind(p);
            }
            Err(kernel::take_last_panic().unwrap_or_else(|| kernel::payload_to_string(&*p)))
        }
    }
}

fn run_prog(t: usize, prog: &[ShCall], client: &StatsdClient, logs: &Mutex<Logs>, recs: &Mutex<Vec<CallRec>>) {
    let me = kernel::current_task().unwrap_or(0);
    for (ci, c) in prog.iter().enumerate() {
        kernel::yield_now();
        let (e0, h0) = {
            let l = logs.lock().unwrap();
            (l.emits.get(&me).map(|v| v.len()).unwrap_or(0), l.handler.get(&me).map(|v| v.len()).unwrap_or(0))
        };
        let key = key_of(t, ci);
        let invoked = kernel::steps();
        let res = match call(|| do_call(client, &key, &c.call)) {
            Ok(r) => r,
            Err(p) => CallOut::Panicked(p),
        };
        let returned = kernel::steps();
        let (emits, handler) = {
            let l = logs.lock().unwrap();
            (l.emits.get(&me).map(|v| v[e0..].to_vec()).unwrap_or_default(), l.handler.get(&me).map(|v| v[h0..].to_vec()).unwrap_or_default())
        };
        recs.lock().unwrap().push(CallRec { task: t, ci, res, emits, handler, invoked, returned });
    }
}

struct SimOut {
    recs: Vec<CallRec>,
    strays: Vec<String>,
    total_emits: usize,
    total_handler: usize,
}

fn sim_main(case: ShCase) -> SimOut {
    let logs = Arc::new(Mutex::new(Logs::default()));
    let mut answers = Vec::new();
    for (t, prog) in case.tasks.iter().enumerate() {
        for (ci, c) in prog.iter().enumerate() {
            answers.push((format!("{}:", key_of(t, ci)), c.ans.clone()));
        }
    }
    let sink = KeyedSink { logs: logs.clone(), answers, yields: case.sink_yields };
    let mut b = StatsdClient::builder(&case.prefix, sink);
    for (k, v) in &case.default_tags {
        b = match k {
            Some(k) => b.with_tag(k, v),
            None => b.with_tag_value(v),
        };
    }
    let self_slot: Arc<Mutex<Option<Arc<StatsdClient>>>> = Arc::new(Mutex::new(None));
    let in_nested: Arc<Mutex<BTreeSet<usize>>> = Arc::new(Mutex::new(BTreeSet::new()));
    if case.handler {
        let l2 = logs.clone();
        let slot2 = self_slot.clone();
        let nested = case.nested_same_client;
        let yields = case.handler_yields;
        let fallback: Option<Arc<StatsdClient>> = if case.reentrant_handler { Some(Arc::new(StatsdClient::from_sink("fallback", cadence::NopMetricSink))) } else { None };
        b = b.with_error_handler(move |e: MetricError| {
            let me = kernel::current_task().unwrap_or(0);
            let enter = kernel::steps();
            let (kind, src, disp) = err_parts(&e);
            for _ in 0..yields {
                kernel::yield_now();
            }
            if let Some(f) = &fallback {
                f.count_with_tags("metrics.dropped", 1).with_tag("from", "handler").send();
            }
            let first = in_nested.lock().unwrap().insert(me);
            if nested && first {
                let c = slot2.lock().unwrap().clone();
                if let Some(c) = c {
                    c.count_with_tags("hnq", 7).with_tag("from", "handler").send();
                }
            }
            if first {
                in_nested.lock().unwrap().remove(&me);
            }
            kernel::yield_now();
            let exit = kernel::steps();
            l2.lock().unwrap().handler.entry(me).or_default().push(HandRec { kind, src, disp, enter, exit });
        });
    }
    let client = Arc::new(b.build());
    *self_slot.lock().unwrap() = Some(client.clone());
    let recs = Arc::new(Mutex::new(Vec::new()));
    let mut hs = Vec::new();
    for (t, prog) in case.tasks.iter().enumerate().skip(1) {
        let c = client.clone();
        let l = logs.clone();
        let r = recs.clone();
        let prog = prog.clone();
        hs.push(sthread::spawn_named(&format!("caller{t}"), move || run_prog(t, &prog, &c, &l, &r)));
    }
    if let Some(p0) = case.tasks.first() {
        run_prog(0, p0, &client, &logs, &recs);
    }
    kernel::wait_idle();
    *self_slot.lock().unwrap() = None;
    let l = logs.lock().unwrap();
    let out = SimOut {
        recs: recs.lock().unwrap().clone(),
        strays: l.strays.clone(),
        total_emits: l.emits.values().map(|v| v.len()).sum(),
        total_handler: l.handler.values().map(|v| v.len()).sum(),
    };
    drop(hs);
    out
}

impl Engine for E8 {
    type Case = ShCase;
    const NAME: &'static str = "sharedclient";
    const ID: u64 = 8;

    fn real_vs_stub() -> serde_json::Value {
        serde_json::json!({
            "real": ["one StatsdClient (builder, prefix, default tags, error handler) shared through Arc by 2..4 simulated caller threads; MetricBuilder try_send / send; all entry points of E1"],
            "stub": ["the client's sink: answers per metric key (Ok(len) / Ok(0) / Ok(arbitrary) / Err(any io::ErrorKind)), with scheduling points inside emit", "the error handler: records, contains scheduling points, optionally sends on a second client or on the same client"],
            "pass_through_shims": []
        })
    }

    fn nontrivial_rule() -> &'static str {
        "one case = (client configuration, 2..4 caller programs of 1..6 calls each with the sink's answer per call, scheduler strategy and seed); distinct = distinct (case hash, schedule hash); non-trivial = at least 2 tasks made a call and at least two calls overlapped in simulated step time"
    }

    fn is_fault_case(c: &ShCase) -> bool {
        c.tasks.iter().flatten().any(|c| matches!(c.ans, SinkAns::Err(_)))
    }

    fn required_probes(focus: &str) -> &'static [&'static str] {
        if focus == "C20" {
            return &[];
        }
        &["calls_overlap", "two_tasks_in_sink", "two_tasks_in_handler", "failure_while_other_in_handler", "handler_called", "sink_refused_try_send", "nested_same_client_ran"]
    }

    fn generate(rng: &mut Rng, _focus: &str, tier: Tier) -> ShCase {
        // thorough tier: half of the cases have up to six callers and programs twice as long
        let deep = tier == Tier::Thorough && rng.split(9).chance(1, 2);
        let mut cfg = rng.split(1);
        let mut prog = rng.split(2);
        let mut flt = rng.split(3);
        let mut sch = rng.split(4);
        let prefix = match cfg.below(4) {
            0 => String::new(),
            1 => "app".to_string(),
            2 => "my.app..".to_string(),
            _ => hostile_string(&mut cfg, 6),
        };
        let mut default_tags = Vec::new();
        for _ in 0..cfg.usize_below(3) {
            default_tags.push((if cfg.chance(1, 2) { Some(hostile_string(&mut cfg, 4)) } else { None }, hostile_string(&mut cfg, 4)));
        }
        let handler = cfg.chance(5, 6);
        let n_tasks = 2 + cfg.usize_below(if deep { 5 } else { 3 });
        let rate = *flt.pick(&[10u64, 40, 70, 100]);
        let quiet_bias = cfg.chance(1, 2);
        let mut tasks = Vec::new();
        for _ in 0..n_tasks {
            let n = 1 + prog.usize_below(if deep { 12 } else { 6 });
            let mut v = Vec::new();
            for _ in 0..n {
                let mut c = gen_call(&mut prog);
                if c.list_len > 8 {
                    c.list_len = 8;
                }
                if quiet_bias && prog.chance(2, 3) {
                    c.form = 2;
                }
                let ans = if flt.chance(rate, 100) {
                    SinkAns::Err(IO_KINDS[flt.usize_below(IO_KINDS.len())].0.to_string())
                } else {
                    match flt.below(4) {
                        0 => SinkAns::OkZero,
                        1 => SinkAns::OkArbitrary(flt.usize_below(100_000)),
                        _ => SinkAns::OkLen,
                    }
                };
                v.push(ShCall { call: c, ans });
            }
            tasks.push(v);
        }
        ShCase {
            sched: SchedSpec::generate(&mut sch, &[45, 30, 25, 0, 0]),
            prefix,
            default_tags,
            handler,
            handler_yields: cfg.below(4) as u8,
            sink_yields: cfg.below(3) as u8,
            reentrant_handler: handler && cfg.chance(1, 3),
            nested_same_client: handler && cfg.chance(1, 3),
            tasks,
        }
    }

    fn pin_schedule(case: &ShCase, o: &Outcome) -> ShCase {
        let mut c = case.clone();
        c.sched.explicit = Some(o.schedule.clone());
        c
    }

    fn execute(case: &ShCase, want_trace: bool) -> Outcome {
        let mut out = Outcome::default();
        out.strategy = case.sched.name();
        let mut kc = KConfig::new(case.sched.seed, case.sched.strategy(80));
        kc.record_trace = want_trace;
        let c2 = case.clone();
        let r = Kernel::run(kc, move || sim_main(c2));
        out.steps = r.steps;
        out.contested = r.contested;
        out.trace_hash = r.trace_hash;
        out.schedule_hash = hash_schedule(&r.schedule);
        out.schedule = r.schedule.clone();
        if let Some(e) = &r.error {
            out.harness_error = Some(e.clone());
            return out;
        }
        if want_trace {
            for e in &r.trace {
                out.trace.push(format!("step {:>4} task {} {}", e.step, e.task, e.what));
            }
        }
        for t in &r.tasks {
            if let Some(p) = &t.panicked {
                out.violate(&["C03", "C20"], "shared.task-panicked", format!("task {} panicked: {p}", t.id));
                return out;
            }
        }
        let so = match &r.main {
            Some(v) => v,
            None => {
                out.violate(&["C03"], "shared.main-blocked", format!("main task did not finish: {:?}", r.tasks.first().map(|t| (&t.state, &t.label, &t.panicked))));
                return out;
            }
        };
        judge(case, so, &mut out, want_trace);
        out
    }

    fn shrink(case: &ShCase) -> Vec<ShCase> {
        let mut v = Vec::new();
        for i in (1..case.tasks.len()).rev() {
            let mut c = case.clone();
            c.tasks.remove(i);
            v.push(c);
        }
        for t in 0..case.tasks.len() {
            for i in 0..case.tasks[t].len() {
                let mut c = case.clone();
                c.tasks[t].remove(i);
                v.push(c);
            }
        }
        for (flag, f) in [
            (case.reentrant_handler, (|c: &mut ShCase| c.reentrant_handler = false) as fn(&mut ShCase)),
            (case.nested_same_client, |c: &mut ShCase| c.nested_same_client = false),
            (case.handler_yields > 0, |c: &mut ShCase| c.handler_yields -= 1),
            (case.sink_yields > 0, |c: &mut ShCase| c.sink_yields -= 1),
            (!case.prefix.is_empty(), |c: &mut ShCase| c.prefix.clear()),
            (!case.default_tags.is_empty(), |c: &mut ShCase| c.default_tags.clear()),
        ] {
            if flag {
                let mut c = case.clone();
                f(&mut c);
                v.push(c);
            }
        }
        for t in 0..case.tasks.len() {
            for i in 0..case.tasks[t].len() {
                let cl = &case.tasks[t][i].call;
                if !cl.tags.is_empty() || cl.rate.is_some() || cl.timestamp.is_some() || cl.container.is_some() || cl.list_len > 1 {
                    let mut c = case.clone();
                    let k = &mut c.tasks[t][i].call;
                    k.tags.clear();
                    k.rate = None;
                    k.timestamp = None;
                    k.container = None;
                    k.list_len = k.list_len.min(1);
                    v.push(c);
                }
                if !matches!(case.tasks[t][i].ans, SinkAns::OkLen) && !matches!(case.tasks[t][i].ans, SinkAns::Err(_)) {
                    let mut c = case.clone();
                    c.tasks[t][i].ans = SinkAns::OkLen;
                    v.push(c);
                }
            }
        }
        for s in case.sched.shrink() {
            let mut c = case.clone();
            c.sched = s;
            v.push(c);
        }
        v
    }
}

fn judge(case: &ShCase, so: &SimOut, out: &mut Outcome, want_trace: bool) {
    let recs = &so.recs;
    out.api_calls = recs.len() as u64;
    if want_trace {
        out.trace.push("---- calls ----".into());
        for r in recs {
            out.trace.push(format!("  caller {} call {} invoked@{} returned@{} -> {:?}; emits={:?} handler={:?}", r.task, r.ci, r.invoked, r.returned, r.res, r.emits, r.handler));
        }
    }
    if let Some(s) = so.strays.first() {
        out.violate(&["C03"], "shared.emit-of-unknown-metric", format!("the sink was handed {s:?}, which is not the text of any call made"));
        return;
    }
    let mut want_total_emits = 0usize;
    let mut want_total_handler = 0usize;
    let mut h = Fnv::default();
    for r in recs {
        let c = &case.tasks[r.task][r.ci];
        let key = key_of(r.task, r.ci);
        let valid = call_valid(&c.call);
        let refused = matches!(c.ans, SinkAns::Err(_));
        let want_kind = match &c.ans {
            SinkAns::Err(k) => k.clone(),
            _ => String::new(),
        };
        let what = format!("caller {} call #{} (entry {}, form {}, {}, sink answer {:?})", r.task, r.ci, c.call.entry, c.call.form, if valid { "valid value" } else { "invalid value" }, c.ans);
        if let CallOut::Panicked(p) = &r.res {
            out.violate(&["C03", "C20"], "shared.call-panicked", format!("{what} panicked: {p}"));
            return;
        }
        let failed = !valid || refused;
        let nested_expected = case.nested_same_client && case.handler && c.call.form == 2 && failed;
        let want_emits = usize::from(valid) + usize::from(nested_expected);
        want_total_emits += want_emits;
        if r.emits.len() != want_emits {
            out.violate(&["C03"], "shared.emit-count", format!("{what}: the calling thread handed the sink {} strings during the call, expected {want_emits}: {:?}", r.emits.len(), r.emits.iter().map(|e| &e.text).collect::<Vec<_>>()));
            return;
        }
        if valid {
            let e = &r.emits[0];
            if !e.text.contains(&format!("{key}:")) {
                out.violate(&["C03"], "shared.emitted-someone-elses-metric", format!("{what}: the string handed to the sink during the call is {:?}, which is not this call's metric", e.text));
                return;
            }
            if e.accepted == refused {
                out.harness_error = Some(format!("sink answered inconsistently for {key}"));
                return;
            }
        }
        if nested_expected {
            out.probe("nested_same_client_ran");
            if !r.emits[want_emits - 1].text.contains("hnq:") {
                out.violate(&["C03"], "shared.emit-count", format!("{what}: expected the handler's own report as the last emit, got {:?}", r.emits[want_emits - 1].text));
                return;
            }
        }
        let is_io_err = |kind: &str, src: &Option<ErrId>| kind == "IoError" && src.as_ref().map(|s| s.kind == want_kind && s.msg == format!("fault#{key}")).unwrap_or(false);
        let want_handler = usize::from(failed && case.handler && c.call.form == 2);
        want_total_handler += want_handler;
        match &r.res {
            CallOut::Ok(text) => {
                if failed {
                    out.violate(&["C03"], "shared.ok-without-accepted-emit", format!("{what} returned Ok({text:?}) but the sink {}", if valid { "refused the metric" } else { "was never given anything" }));
                    return;
                }
                if &r.emits[0].text != text {
                    out.violate(&["C03"], "shared.returned-text-differs-from-emitted", format!("{what} returned {text:?} but the sink was handed {:?}", r.emits[0].text));
                    return;
                }
            }
            CallOut::Err(kind, src, disp) => {
                if !valid {
                    if kind != "InvalidInput" {
                        out.violate(&["C03"], "shared.invalid-value-error-kind", format!("{what} returned an error of kind {kind} ({disp}), expected InvalidInput"));
                        return;
                    }
                } else if !refused {
                    out.violate(&["C03"], "shared.err-although-sink-accepted", format!("{what} returned Err({kind}: {disp}) although the sink accepted the metric"));
                    return;
                } else {
                    out.probe("sink_refused_try_send");
                    if !is_io_err(kind, src) {
                        out.violate(&["C03"], "shared.sink-error-not-carried", format!("{what}: the sink refused with {want_kind}:fault#{key} but the call returned kind={kind} source={src:?}"));
                        return;
                    }
                }
            }
            CallOut::Quiet => {}
            CallOut::Panicked(_) => unreachable!(),
        }
        if r.handler.len() != want_handler {
            out.violate(&["C03"], "shared.handler-count", format!("{what} ({}) invoked the error handler {} times on the calling thread, expected {want_handler}", if failed { "failed" } else { "succeeded" }, r.handler.len()));
            return;
        }
        if want_handler == 1 {
            out.probe("handler_called");
            let hr = &r.handler[0];
            let ok = if !valid { hr.kind == "InvalidInput" } else { is_io_err(&hr.kind, &hr.src) };
            if !ok {
                out.violate(&["C03"], "shared.handler-wrong-error", format!("{what}: the handler received kind={} source={:?} ({})", hr.kind, hr.src, hr.disp));
                return;
            }
        }
        h.u64(r.task as u64);
        h.u64(match &r.res {
            CallOut::Ok(_) => 1,
            CallOut::Err(..) => 2,
            CallOut::Quiet => 3,
            CallOut::Panicked(_) => 4,
        });
        h.u64(r.emits.len() as u64);
        h.u64(r.handler.len() as u64);
        out.state_hashes.push(h.0);
        if failed {
            out.fired(if valid { "sink_refusal" } else { "invalid_value" });
        }
    }
    // nothing happened outside the calls (e.g. on another thread, or after the call returned)
    if so.total_emits != want_total_emits {
        out.violate(&["C03"], "shared.emit-outside-call", format!("the sink was handed {} strings in total, the calls account for {want_total_emits}", so.total_emits));
        return;
    }
    if so.total_handler != want_total_handler {
        out.violate(&["C03"], "shared.handler-outside-call", format!("the error handler ran {} times in total, the calls account for {want_total_handler}", so.total_handler));
        return;
    }
    for c in case.tasks.iter().flatten() {
        if matches!(c.ans, SinkAns::Err(_)) {
            out.configured("sink_refusal");
        }
    }
    // reach probes: overlaps between different callers
    let overlap = |a: (u64, u64), b: (u64, u64)| a.0 < b.1 && b.0 < a.1;
    let mut calls_overlap = false;
    for a in recs {
        for b in recs {
            if a.task >= b.task {
                continue;
            }
            if overlap((a.invoked, a.returned), (b.invoked, b.returned)) {
                calls_overlap = true;
            }
            for ea in &a.emits {
                for eb in &b.emits {
                    if overlap((ea.enter, ea.exit), (eb.enter, eb.exit)) {
                        out.probe("two_tasks_in_sink");
                    }
                }
            }
            for ha in &a.handler {
                for hb in &b.handler {
                    if overlap((ha.enter, ha.exit), (hb.enter, hb.exit)) {
                        out.probe("two_tasks_in_handler");
                    }
                }
            }
            for (x, y) in [(a, b), (b, a)] {
                // y's failing call began and ended while x was inside its handler
                for hx in &x.handler {
                    if !y.handler.is_empty() && hx.enter < y.invoked && y.returned < hx.exit {
                        out.probe("failure_while_other_in_handler");
                    }
                }
            }
        }
    }
    if calls_overlap {
        out.probe("calls_overlap");
    } else {
        out.api_calls = out.api_calls.min(1);
    }
}
