//! Observation-driven reference model of the line-packing writer (DESIGN.md §5.2) and the
//! history-independent stream oracle used where calls are concurrent (E4) or where the writer's
//! own `flush()` is made to fail (flushfault mode).

use crate::common::Outcome;
use serde::{Deserialize, Serialize};
use std::collections::BTreeMap;

#[derive(Clone, Debug, Serialize, Deserialize, PartialEq, Eq)]
pub struct ErrId {
    pub kind: String,
    pub msg: String,
    pub os: Option<i32>,
}

impl ErrId {
    pub fn of(e: &std::io::Error) -> ErrId {
        ErrId { kind: crate::common::kind_name(e.kind()), msg: e.to_string(), os: e.raw_os_error() }
    }
    /// same error? (kind, and message or errno)
    pub fn same(&self, other: &ErrId) -> bool {
        self.kind == other.kind && (self.os.is_some() && self.os == other.os || self.msg == other.msg)
    }
}

#[derive(Clone, Debug)]
pub struct Attempt {
    /// None: payload not observable (a refused write on the spy route)
    pub payload: Option<Vec<u8>>,
    pub ok: bool,
    pub err: Option<ErrId>,
    /// which task performed it (concurrent engines)
    pub task: Option<usize>,
}

#[derive(Clone, Debug)]
pub enum CallKind {
    Emit { text: Vec<u8>, id: u32 },
    Flush,
    Drop,
}

#[derive(Clone, Debug)]
pub enum CallResult {
    OkLen(usize),
    OkUnit,
    Err(ErrId),
    Unobservable,
    Panicked(String),
}

#[derive(Clone, Debug)]
pub struct CallRec {
    pub kind: CallKind,
    pub result: CallResult,
    pub attempts: Vec<Attempt>,
    /// errors returned by the underlying writer's own flush() during this call (flushfault mode)
    pub inner_flush_errs: Vec<ErrId>,
}

#[derive(Clone, Copy, Debug, PartialEq, Eq)]
pub enum Mode {
    FaultFree,
    Faulty,
}

pub struct ModelCfg {
    pub cap: usize,
    pub term: Vec<u8>,
    pub mode: Mode,
}

fn show(b: &[u8]) -> String {
    let s = String::from_utf8_lossy(b);
    if s.len() > 120 {
        format!("{:?}…({} bytes)", &s.chars().take(100).collect::<String>(), b.len())
    } else {
        format!("{s:?}")
    }
}

/// Can `payload` be read as a concatenation of whole `line+term` items drawn from `lines`?
fn is_whole_lines(payload: &[u8], lines: &[Vec<u8>], term: &[u8]) -> bool {
    // positions reachable
    let n = payload.len();
    let mut reach = vec![false; n + 1];
    reach[0] = true;
    for i in 0..n {
        if !reach[i] {
            continue;
        }
        for l in lines {
            let end = i + l.len() + term.len();
            if end <= n && end > i && payload[i..i + l.len()] == l[..] && payload[i + l.len()..end] == term[..] {
                reach[end] = true;
            }
        }
    }
    n > 0 && reach[n]
}

/// The sequential reference model. Consumes the recorded history call by call.
///
/// Two layers. Layer A (C05/C06/C07) is permissive about *when* a write happens: any write must
/// carry a non-empty in-order prefix of the accepted-but-unwritten lines (or one oversize metric
/// alone), failures change nothing, results must tell the truth, and what a successful flush or
/// drop leaves behind is nothing. Layer B (C19; under refused writes with a prefix rule) is strict about timing
/// and packing: writes happen exactly where greedy in-order packing puts them.
pub fn check_history(cfg: &ModelCfg, calls: &[CallRec], out: &mut Outcome) {
    let cap = cfg.cap;
    let tl = cfg.term.len();
    let faulty = cfg.mode == Mode::Faulty;
    let cons: &[&str] = if faulty { &["C07"] } else { &["C06"] };
    let dup: &[&str] = if faulty { &["C06", "C07"] } else { &["C06"] };
    // accepted, not yet written, in emit order
    let mut remaining: Vec<(u32, Vec<u8>)> = Vec::new();
    // the writer's fill counter as the strict model sees it (layer B)
    let mut fill: usize = 0;
    // layer B runs on every history; under refused writes it uses the prefix rule below
    let mut strict = true;
    let _ = faulty;
    let mut written: BTreeMap<u32, u32> = BTreeMap::new();
    let mut accepted: Vec<u32> = Vec::new();
    let mut dead: Vec<(u32, Vec<u8>)> = Vec::new();
    let all_lines: Vec<Vec<u8>> = calls
        .iter()
        .filter_map(|c| match &c.kind {
            CallKind::Emit { text, .. } => Some(text.clone()),
            _ => None,
        })
        .collect();
    let line_len = |t: &Vec<u8>| t.len() + tl;

    for (ci, c) in calls.iter().enumerate() {
        if let CallResult::Panicked(msg) = &c.result {
            out.violate(&["C20"], "linebuf.call-panicked", format!("call #{ci} {} panicked: {msg}", kind_name(&c.kind)));
            return;
        }
        {
            let mut h = cadence_dsim::rng::Fnv::default();
            h.u64(fill as u64);
            h.u64(remaining.len() as u64);
            h.u64(cap as u64);
            h.u64(match &c.kind {
                CallKind::Emit { text, .. } => 1000 + text.len() as u64,
                CallKind::Flush => 1,
                CallKind::Drop => 2,
            });
            out.state_hashes.push(h.0);
        }
        let (emit_text, emit_id) = match &c.kind {
            CallKind::Emit { text, id } => (Some(text), Some(*id)),
            _ => (None, None),
        };
        let bypass = emit_text.map(|t| t.len() + tl > cap).unwrap_or(false);
        let what = kind_name(&c.kind);
        // C19, independent of what the writes carry: a call may cause at most one successful
        // socket write for the batch it must make room for / flush, plus (emit only) one for an
        // exactly filled buffer; an oversize metric exactly one
        {
            let n_ok = c.attempts.iter().filter(|a| a.ok).count();
            let allowed = match &c.kind {
                // an oversize metric goes out alone; a variant may first send what is buffered
                // so that the order on the wire is the order of the emits (no statement forbids it:
                // the oversize metric "does not fit in the space remaining")
                CallKind::Emit { .. } if bypass => 1 + usize::from(!remaining.is_empty()),
                CallKind::Emit { .. } => 2,
                CallKind::Flush | CallKind::Drop => 1,
            };
            if n_ok > allowed {
                out.violate(&["C19"], "linebuf.too-many-writes", format!("call #{ci} ({what}) caused {n_ok} successful socket writes; in-order packing never needs more than {allowed} for such a call"));
            }
        }
        // candidate lines a write of this call may carry, in order
        let mut cand: Vec<(u32, Vec<u8>)> = remaining.clone();
        if let (Some(t), Some(id), false) = (emit_text, emit_id, bypass) {
            cand.push((id, t.clone()));
        }
        let n_before = remaining.len();
        let mut consumed = 0usize; // how many of cand have been written successfully
        let mut lone: Vec<&Attempt> = Vec::new();
        // per attempt: how many candidate lines it carried (0 = the lone oversize write)
        let mut shape: Vec<(usize, bool)> = Vec::new();

        for (ai, a) in c.attempts.iter().enumerate() {
            let p = match &a.payload {
                Some(p) => p,
                None => {
                    // unobservable payload (a refused write on the spy route)
                    if bypass && lone.is_empty() && !a.ok {
                        lone.push(a);
                        shape.push((0, a.ok));
                    } else {
                        shape.push((usize::MAX, a.ok));
                    }
                    continue;
                }
            };
            // ambiguity with non-unique texts: a write equal to the oversize metric that is also the
            // pending batch is read as the batch if a later write of this call can be the lone one
            let also_prefix = {
                let mut acc: Vec<u8> = Vec::new();
                let mut hit = false;
                for (_, t) in cand.iter().skip(consumed) {
                    acc.extend_from_slice(t);
                    acc.extend_from_slice(&cfg.term);
                    if acc.len() >= p.len() {
                        hit = acc[..] == p[..];
                        break;
                    }
                }
                hit
            };
            let later_same = c.attempts[ai + 1..].iter().any(|b| b.payload.as_deref() == Some(&p[..]));
            if bypass && p[..] == emit_text.unwrap()[..] && !(also_prefix && later_same) {
                if lone.iter().any(|l| l.ok) {
                    out.violate(dup, "linebuf.written-twice", format!("call #{ci} ({what}): the oversize metric was written again after a successful write"));
                    return;
                }
                lone.push(a);
                shape.push((0, a.ok));
                continue;
            }
            // must be a non-empty in-order prefix of the unwritten candidates
            let mut acc: Vec<u8> = Vec::new();
            let mut k = 0;
            let mut matched = None;
            for (i, (_, t)) in cand.iter().enumerate().skip(consumed) {
                acc.extend_from_slice(t);
                acc.extend_from_slice(&cfg.term);
                k = i + 1 - consumed;
                if acc.len() > p.len() {
                    break;
                }
                if acc[..] == p[..] {
                    matched = Some(k);
                    break;
                }
            }
            let _ = k;
            match matched {
                Some(k) => {
                    if p.len() > cap {
                        out.violate(&["C05"], "linebuf.write-exceeds-capacity", format!("call #{ci} ({what}): a write of {} bytes exceeds the capacity {cap}: {}", p.len(), show(p)));
                        return;
                    }
                    shape.push((k, a.ok));
                    if a.ok {
                        for (id, _) in &cand[consumed..consumed + k] {
                            *written.entry(*id).or_insert(0) += 1;
                        }
                        consumed += k;
                    }
                }
                None => {
                    let expect: Vec<u8> = cand.iter().skip(consumed).flat_map(|(_, t)| t.iter().chain(cfg.term.iter()).copied().collect::<Vec<u8>>()).collect();
                    let oversize_alone = all_lines.iter().any(|l| l.len() + tl > cap && l[..] == p[..]);
                    let whole = oversize_alone || (p.len() <= cap && is_whole_lines(p, &all_lines, &cfg.term));
                    if whole {
                        out.violate(
                            dup,
                            "linebuf.write-wrong-lines",
                            format!("call #{ci} ({what}): underlying write {} is made of complete lines but is not an in-order prefix of the accepted, unwritten metrics {} (duplicate, reordered, lost or refused metric)", show(p), show(&expect)),
                        );
                    } else {
                        out.violate(
                            &["C05"],
                            "linebuf.write-not-whole-lines",
                            format!("call #{ci} ({what}): underlying write {} is not a concatenation of complete lines (unwritten: {})", show(p), show(&expect)),
                        );
                    }
                    return;
                }
            }
        }
        let any_failed = c.attempts.iter().any(|a| !a.ok);
        let last_failed = c.attempts.last().map(|a| !a.ok).unwrap_or(false);
        let err_matches = |res: &ErrId| -> bool {
            c.attempts.iter().filter(|a| !a.ok).any(|a| match &a.err {
                Some(e) => e.same(res) || e.msg == "unobservable",
                None => true,
            }) || c.inner_flush_errs.iter().any(|e| e.same(res))
        };
        let m_written = !bypass && emit_id.is_some() && consumed > n_before;

        // ---- layer A: results ----
        match (&c.kind, &c.result) {
            (CallKind::Emit { text, id }, res) if bypass => {
                out.probe("bypass");
                if n_before > 0 {
                    out.probe("bypass_while_buffered");
                }
                if lone.is_empty() && matches!(res, CallResult::Err(e) if any_failed && err_matches(e)) {
                    // refused before its own write was attempted (a failed write earlier in the call)
                    dead.push((*id, text.clone()));
                } else if lone.is_empty() && text.is_empty() {
                    // an empty metric that "does not fit" (capacity below the terminator's length):
                    // zero bytes are on the wire whether or not a zero-length write was made
                } else if lone.is_empty() {
                    out.violate(&["C05", "C06", "C13"], "linebuf.bypass-not-written", format!("call #{ci}: oversize metric #{id} ({}+{tl} > {cap}) was not written alone and unmodified during its own emit ({} other writes)", text.len(), c.attempts.len()));
                    return;
                }
                let ok = lone.iter().any(|l| l.ok);
                match res {
                    _ if lone.is_empty() => {}
                    CallResult::OkLen(n) => {
                        if !ok {
                            out.violate(&["C07"], "linebuf.ok-despite-failure", format!("call #{ci}: emit of an oversize metric returned Ok although its write failed"));
                            return;
                        }
                        if *n != text.len() {
                            out.violate(&["C06", "C13"], "linebuf.emit-ok-len", format!("call #{ci}: emit returned Ok({n}) for a metric of {} bytes", text.len()));
                            return;
                        }
                        accepted.push(*id);
                        *written.entry(*id).or_insert(0) += 1;
                    }
                    CallResult::Err(e) => {
                        out.probe("bypass_failed");
                        if ok && !any_failed {
                            out.violate(cons, "linebuf.err-despite-success", format!("call #{ci}: emit returned {e:?} although its write succeeded"));
                            return;
                        }
                        if !err_matches(e) {
                            out.violate(&["C07"], "linebuf.error-not-sockets", format!("call #{ci}: emit returned {e:?}, which is not the error of a failed write"));
                            return;
                        }
                        if ok {
                            out.violate(&["C07"], "linebuf.refused-metric-written", format!("call #{ci}: emit returned an error but the metric was written"));
                            return;
                        }
                        dead.push((*id, text.clone()));
                    }
                    _ => {}
                }
            }
            (CallKind::Emit { text, id }, res) => match res {
                CallResult::OkLen(n) => {
                    if *n != text.len() {
                        out.violate(cons, "linebuf.emit-result", format!("call #{ci}: emit of {} bytes returned Ok({n})", text.len()));
                        return;
                    }
                    accepted.push(*id);
                }
                CallResult::Err(e) => {
                    if !any_failed && c.inner_flush_errs.is_empty() {
                        out.violate(cons, "linebuf.err-despite-success", format!("call #{ci}: emit returned {e:?} although no write failed"));
                        return;
                    }
                    if !err_matches(e) {
                        out.violate(&["C07"], "linebuf.error-not-sockets", format!("call #{ci}: emit returned {e:?}, which is not the error of a failed write"));
                        return;
                    }
                    if m_written {
                        out.violate(&["C07"], "linebuf.refused-metric-written", format!("call #{ci}: emit returned an error but the metric was written"));
                        return;
                    }
                    dead.push((*id, text.clone()));
                    cand.pop();
                }
                _ => {}
            },
            (CallKind::Flush, res) => match res {
                CallResult::OkUnit => {
                    if consumed < cand.len() {
                        let props: &[&str] = if last_failed { &["C07"] } else { &["C06", "C13"] };
                        out.violate(props, "linebuf.flush-ok-but-still-buffered", format!("call #{ci}: flush returned Ok but {} accepted metric(s) were not written{}", cand.len() - consumed, if last_failed { " (its write failed)" } else { "" }));
                        return;
                    }
                }
                CallResult::Err(e) => {
                    if !any_failed && c.inner_flush_errs.is_empty() {
                        out.violate(cons, "linebuf.err-despite-success", format!("call #{ci}: flush returned {e:?} although no write failed"));
                        return;
                    }
                    if !err_matches(e) {
                        out.violate(&["C07"], "linebuf.error-not-sockets", format!("call #{ci}: flush returned {e:?}, which is not the error of a failed write"));
                        return;
                    }
                }
                _ => {}
            },
            (CallKind::Drop, _) => {
                if consumed < cand.len() && !last_failed {
                    out.violate(&["C06", "C13"], "linebuf.drop-left-metrics-unwritten", format!("call #{ci}: the sink was dropped with {} accepted metric(s) never written", cand.len() - consumed));
                    return;
                }
            }
        }
        if any_failed {
            match &c.kind {
                CallKind::Emit { .. } if bypass => {}
                CallKind::Emit { .. } => out.probe("auto_flush_failed"),
                CallKind::Flush => out.probe("flush_failed"),
                CallKind::Drop => out.probe("drop_flush_failed"),
            }
            if !last_failed {
                out.probe("retry_inside_call_succeeded");
            }
        }

        // ---- layer B: strict timing and greedy packing ----
        // Fault-free histories: the writes of a call must be exactly one of the shape lists greedy
        // in-order packing allows. Histories with refused writes: retries of the same batch are
        // collapsed, and a call cut short by a refused write must still be a *prefix* of an
        // allowed list (a refused write never licenses an additional, unnecessary one).
        if strict {
            // collapse retries: consecutive attempts of the same shape of which all but the last failed
            let mut collapsed: Vec<(usize, bool)> = Vec::new();
            // a synthesized "the channel was full/closed at drop time" marker is not a write
            let real: Vec<(usize, bool)> = shape
                .iter()
                .zip(c.attempts.iter())
                .filter(|(_, a)| !(n_before == 0 && a.payload.is_none() && !a.ok && a.err.as_ref().map(|e| e.msg == "unobservable").unwrap_or(false)))
                .map(|(s, _)| *s)
                .collect();
            for (k, ok) in real.iter().copied() {
                match collapsed.last_mut() {
                    Some((pk, pok)) if !*pok && (*pk == k || *pk == usize::MAX || k == usize::MAX) => {
                        if *pk == usize::MAX {
                            *pk = k;
                        }
                        *pok = ok;
                    }
                    _ => collapsed.push((k, ok)),
                }
            }
            let ok_shapes: Vec<usize> = collapsed.iter().map(|(k, _)| *k).collect();
            let cut_short = collapsed.last().map(|(_, ok)| !*ok).unwrap_or(false);
            let failed_in_the_middle = collapsed.iter().rev().skip(1).any(|(_, ok)| !*ok);
            let mut expect: Vec<Vec<usize>> = Vec::new(); // acceptable shape lists
            let mut flushes_first = false;
            match &c.kind {
                CallKind::Emit { text, .. } if bypass => {
                    let _ = text;
                    expect.push(vec![0]);
                    if n_before > 0 {
                        // order-preserving variant: what is buffered first, then the oversize metric alone
                        expect.push(vec![n_before, 0]);
                    }
                }
                CallKind::Emit { text, .. } => {
                    let req = line_len(text);
                    let mut base: Vec<usize> = Vec::new();
                    let mut f = fill;
                    let mut nb = n_before;
                    if f + req > cap {
                        out.probe("auto_flush");
                        if f + req == cap + 1 {
                            out.probe("one_byte_short");
                        }
                        if nb > 0 {
                            base.push(nb);
                            flushes_first = true;
                        }
                        f = 0;
                        nb = 0;
                    }
                    expect.push(base.clone());
                    if f + req == cap {
                        out.probe("exact_fit");
                        // the buffer is exactly filled: it may be written at once
                        let mut alt = base.clone();
                        alt.push(nb + 1);
                        expect.push(alt);
                    }
                }
                CallKind::Flush | CallKind::Drop => {
                    if n_before > 0 {
                        expect.push(vec![n_before]);
                    } else {
                        if matches!(c.kind, CallKind::Flush) {
                            out.probe("flush_empty");
                        }
                        expect.push(vec![]);
                    }
                }
            }
            let same = |a: &[usize], b: &[usize]| a.len() == b.len() && a.iter().zip(b).all(|(x, y)| x == y || *x == usize::MAX);
            let fits = if failed_in_the_middle {
                false
            } else if cut_short {
                expect.iter().any(|e| e.len() >= ok_shapes.len() && same(&ok_shapes, &e[..ok_shapes.len()]))
            } else {
                expect.iter().any(|e| same(&ok_shapes, e))
            };
            if !fits {
                let clause = if ok_shapes.len() > expect.iter().map(|e| e.len()).max().unwrap_or(0) || failed_in_the_middle {
                    "linebuf.needless-write"
                } else {
                    "linebuf.not-greedy"
                };
                let shown: Vec<String> = collapsed.iter().map(|(k, ok)| format!("{}{}", if *k == usize::MAX { "?".to_string() } else { k.to_string() }, if *ok { "" } else { "(refused)" })).collect();
                out.violate(
                    &["C19"],
                    clause,
                    format!(
                        "call #{ci} ({what}): with {fill} of {cap} bytes buffered ({n_before} metrics) the writes of this call carried {shown:?} lines each (0 = oversize metric alone); the socket may be written only where greedy in-order packing needs it: {expect:?}"
                    ),
                );
                strict = false;
            } else if cut_short {
                // the call was cut short by a refused write: the fill counter only moves if the
                // flush that makes room had already succeeded
                let bypass_flushed_first = bypass && n_before > 0 && collapsed.first().map(|(k, ok)| *k == n_before && *ok).unwrap_or(false);
                if (flushes_first && collapsed.len() >= 2) || bypass_flushed_first {
                    fill = 0;
                }
            } else {
                // advance the strict fill counter
                match &c.kind {
                    CallKind::Emit { .. } if bypass => {
                        if ok_shapes.len() == 2 {
                            // the buffered lines were sent first
                            fill = 0;
                        }
                    }
                    CallKind::Emit { text, .. } => {
                        let req = line_len(text);
                        if fill + req > cap {
                            fill = 0;
                        }
                        fill += req;
                        if ok_shapes.last().map(|k| *k > 0).unwrap_or(false) && fill == cap && consumed == cand.len() {
                            out.probe("exact_fill_written");
                        }
                    }
                    CallKind::Flush | CallKind::Drop => fill = 0,
                }
            }
        }

        // commit layer A state
        remaining = cand[consumed.min(cand.len())..].to_vec();
        if let (CallKind::Emit { .. }, CallResult::Err(_)) = (&c.kind, &c.result) {
            // refused metric is not pending (already popped above for the buffered path)
        }
    }

    // conservation at the end of the history
    for id in &accepted {
        let n = written.get(id).copied().unwrap_or(0);
        if n > 1 {
            out.violate(dup, "linebuf.written-twice", format!("metric #{id} was written {n} times"));
            return;
        }
    }
    // refused metrics never appear in a later successful write: guaranteed by the prefix rule
    // (they are never candidates again); double-check by search where the text is unique
    for (id, text) in &dead {
        // searchable only if the text is built from a byte no other metric of the history uses
        let first = match text.first() {
            Some(b) if b.is_ascii_alphanumeric() => *b,
            _ => continue,
        };
        if all_lines.iter().filter(|t| t.contains(&first)).count() != 1 {
            continue;
        }
        let mut seen_emit = false;
        for c in calls {
            if let CallKind::Emit { id: cid, .. } = &c.kind {
                if cid == id {
                    seen_emit = true;
                    continue;
                }
            }
            if !seen_emit {
                continue;
            }
            for a in &c.attempts {
                if let Some(p) = &a.payload {
                    if a.ok && find_sub(p, text) {
                        out.violate(&["C07"], "linebuf.dead-metric-written", format!("metric #{id} whose emit returned an error was written later"));
                        return;
                    }
                }
            }
        }
    }
}

fn find_sub(h: &[u8], n: &[u8]) -> bool {
    !n.is_empty() && h.windows(n.len()).any(|w| w == n)
}

fn kind_name(k: &CallKind) -> String {
    match k {
        CallKind::Emit { text, id } => format!("emit #{id} ({} bytes)", text.len()),
        CallKind::Flush => "flush".into(),
        CallKind::Drop => "drop".into(),
    }
}

/// Greedy in-order packing reference for C19 (fault-free mode): the exact list of batches the
/// history must produce. Compared against the successful writes as an independent second oracle.
pub fn greedy_packing(cap: usize, tl: usize, ops: &[(Option<usize>, bool)]) -> Vec<Vec<usize>> {
    greedy_packing_mode(cap, tl, ops, false)
}

/// `oversize_is_barrier`: an oversize metric first sends what is buffered (order-preserving variant).
pub fn greedy_packing_mode(cap: usize, tl: usize, ops: &[(Option<usize>, bool)], oversize_is_barrier: bool) -> Vec<Vec<usize>> {
    // ops: (Some(len), _) = emit of len; (None, _) = flush/drop
    let mut out: Vec<Vec<usize>> = Vec::new();
    let mut cur: Vec<usize> = Vec::new();
    let mut fill = 0usize;
    for (i, (op, _)) in ops.iter().enumerate() {
        match op {
            Some(len) => {
                let req = len + tl;
                if req > cap {
                    if oversize_is_barrier {
                        if !cur.is_empty() {
                            out.push(std::mem::take(&mut cur));
                        }
                        fill = 0;
                    }
                    out.push(vec![usize::MAX - i]); // a lone oversize write, identified by its op index
                    continue;
                }
                if fill + req > cap {
                    if !cur.is_empty() {
                        out.push(std::mem::take(&mut cur));
                    }
                    fill = 0;
                }
                cur.push(i);
                fill += req;
            }
            None => {
                if !cur.is_empty() {
                    out.push(std::mem::take(&mut cur));
                }
                fill = 0;
            }
        }
    }
    out
}

/// History-independent stream oracle: framing of every write, exactly-once for acknowledged
/// metrics, per-emitter order. Requires unique, terminator-free metric texts.
pub struct StreamMetric {
    pub id: u32,
    pub text: Vec<u8>,
    pub acked: bool,
    /// emit returned an error
    pub refused: bool,
    pub emitter: usize,
    pub seq: usize,
}

pub fn check_stream(cap: usize, term: &[u8], metrics: &[StreamMetric], writes: &[Attempt], final_flush_ok: bool, props_cons: &[&str], out: &mut Outcome) {
    let by_text: BTreeMap<&[u8], &StreamMetric> = metrics.iter().map(|m| (&m.text[..], m)).collect();
    let mut count: BTreeMap<u32, u32> = BTreeMap::new();
    let mut last_seq: BTreeMap<usize, usize> = BTreeMap::new();
    for (wi, w) in writes.iter().enumerate() {
        let p = match &w.payload {
            Some(p) => p,
            None => continue,
        };
        // (b) a single oversize metric alone
        if let Some(m) = by_text.get(&p[..]) {
            if m.text.len() + term.len() > cap {
                if w.ok {
                    *count.entry(m.id).or_insert(0) += 1;
                }
                continue;
            }
        }
        // (a) whole lines within capacity
        if p.len() > cap {
            out.violate(&["C05", "C12"], "stream.write-exceeds-capacity", format!("write #{wi} of {} bytes exceeds capacity {cap} and is not a single oversize metric: {}", p.len(), show(p)));
            return;
        }
        let mut pos = 0;
        let mut ids = Vec::new();
        while pos < p.len() {
            // find the terminator
            let rest = &p[pos..];
            let end = if term.is_empty() { None } else { rest.windows(term.len()).position(|w| w == term) };
            match end {
                Some(e) => {
                    let line = &rest[..e];
                    match by_text.get(line) {
                        Some(m) => ids.push(*m),
                        None => {
                            out.violate(&["C05", "C12"], "stream.partial-or-foreign-line", format!("write #{wi} contains {} which is not a complete emitted metric; write = {}", show(line), show(p)));
                            return;
                        }
                    }
                    pos += e + term.len();
                }
                None => {
                    out.violate(&["C05", "C12"], "stream.unterminated-line", format!("write #{wi} ends with a partial line: {}", show(p)));
                    return;
                }
            }
        }
        for m in ids {
            if m.text.len() + term.len() > cap {
                out.violate(&["C05", "C12"], "stream.oversize-merged", format!("write #{wi} merges oversize metric #{} with other lines", m.id));
                return;
            }
            if w.ok {
                *count.entry(m.id).or_insert(0) += 1;
                let prev = last_seq.insert(m.emitter, m.seq);
                if let Some(prev) = prev {
                    if prev > m.seq {
                        out.violate(&["C06", "C12"], "stream.order", format!("emitter {}: metric seq {} was written after seq {prev}", m.emitter, m.seq));
                        return;
                    }
                }
            }
        }
    }
    for m in metrics {
        let n = count.get(&m.id).copied().unwrap_or(0);
        if n > 1 {
            out.violate(&["C06", "C07", "C12"], "stream.written-twice", format!("metric #{} was written {n} times", m.id));
            return;
        }
        if m.acked && n == 0 && final_flush_ok {
            let mut props = props_cons.to_vec();
            props.push("C12");
            out.violate(&props, "stream.accepted-never-written", format!("metric #{} ({}) was acknowledged with Ok but never written", m.id, show(&m.text)));
            return;
        }
        if m.refused && n > 0 && m.text.len() + term.len() <= cap {
            out.violate(&["C07", "C12"], "stream.refused-metric-written", format!("metric #{} whose emit returned an error was written", m.id));
            return;
        }
    }
}
