//! Engine-independent machinery: the batch driver (seeded generation, parallel execution,
//! aggregation of reach measures), minimisation, replay files, known-findings matching and the
//! evidence writer.

use cadence_dsim::rng::{mix, Fnv, Rng};
use serde::de::DeserializeOwned;
use serde::{Deserialize, Serialize};
use std::collections::{BTreeMap, BTreeSet};
use std::sync::atomic::{AtomicBool, AtomicU64, Ordering};
use std::sync::Mutex;
use std::time::Instant;

pub const DEFAULT_SEED: u64 = 20260926;
/// The sets behind the "distinct" counts are bounded so that a thorough run of tens of millions of
/// cases stays within a few GB: counts saturate at these values (reported in the evidence).
pub const DISTINCT_CAP_PER_WORKER: usize = 1_000_000;
pub const DISTINCT_CAP_TOTAL: usize = 8_000_000;

#[derive(Clone, Copy, Debug, PartialEq, Eq, Serialize, Deserialize)]
pub enum Tier {
    Quick,
    Thorough,
}

impl Tier {
    pub fn name(&self) -> &'static str {
        match self {
            Tier::Quick => "quick",
            Tier::Thorough => "thorough",
        }
    }
}

#[derive(Clone, Debug, Serialize, Deserialize)]
pub struct Violation {
    /// every property this clause belongs to
    pub props: Vec<String>,
    /// stable identifier of the oracle clause (used for dedup, minimisation and known findings)
    pub clause: String,
    pub detail: String,
}

impl Violation {
    pub fn new(props: &[&str], clause: &str, detail: String) -> Violation {
        Violation { props: props.iter().map(|s| s.to_string()).collect(), clause: clause.to_string(), detail }
    }
    pub fn concerns(&self, prop: &str) -> bool {
        self.props.iter().any(|p| p == prop)
    }
}

#[derive(Clone, Debug, Default)]
pub struct Outcome {
    pub violations: Vec<Violation>,
    pub trace_hash: u64,
    pub schedule_hash: u64,
    pub steps: u64,
    pub contested: u64,
    pub sim_time_ns: u64,
    pub api_calls: u64,
    pub probes: BTreeMap<&'static str, u64>,
    pub faults_fired: BTreeMap<String, u64>,
    pub faults_configured: BTreeMap<String, u64>,
    pub state_hashes: Vec<u64>,
    pub strategy: &'static str,
    pub harness_error: Option<String>,
    pub trace: Vec<String>,
    /// explicit schedule actually taken (sim engines)
    pub schedule: Vec<u32>,
}

impl Outcome {
    pub fn probe(&mut self, name: &'static str) {
        *self.probes.entry(name).or_insert(0) += 1;
    }
    pub fn probe_n(&mut self, name: &'static str, n: u64) {
        if n > 0 {
            *self.probes.entry(name).or_insert(0) += n;
        }
    }
    pub fn fired(&mut self, kind: &str) {
        *self.faults_fired.entry(kind.to_string()).or_insert(0) += 1;
    }
    pub fn configured(&mut self, kind: &str) {
        *self.faults_configured.entry(kind.to_string()).or_insert(0) += 1;
    }
    pub fn violate(&mut self, props: &[&str], clause: &str, detail: String) {
        if self.violations.len() < 16 {
            self.violations.push(Violation::new(props, clause, detail));
        }
    }
}

pub trait Engine: Sync + 'static {
    type Case: Serialize + DeserializeOwned + Clone + Send + Sync + 'static;
    const NAME: &'static str;
    const ID: u64;
    /// which components ran real code and which a stub
    fn real_vs_stub() -> serde_json::Value;
    fn generate(rng: &mut Rng, focus: &str, tier: Tier) -> Self::Case;
    /// execute once; `want_trace` asks for a textual event trace
    fn execute(case: &Self::Case, want_trace: bool) -> Outcome;
    /// one-step simplifications of a case (smaller first)
    fn shrink(case: &Self::Case) -> Vec<Self::Case>;
    /// single-fault sweep: the same history with exactly one fault at every site
    fn sweep(_case: &Self::Case, _fault_free_outcome: &Outcome) -> Vec<Self::Case> {
        Vec::new()
    }
    /// pin the schedule actually taken into the case (sim engines), so the replay file is explicit
    fn pin_schedule(case: &Self::Case, _outcome: &Outcome) -> Self::Case {
        case.clone()
    }
    /// is this case fault-injecting (for the non-triviality rule)?
    fn is_fault_case(_case: &Self::Case) -> bool {
        false
    }
    /// probes that must be non-zero in a batch of this focus (else harness defect)
    fn required_probes(_focus: &str) -> &'static [&'static str] {
        &[]
    }
    /// a named signature of a violation for matching against known_findings.json
    fn signature(_case: &Self::Case, _outcome: &Outcome, _v: &Violation) -> Option<String> {
        None
    }
    fn nontrivial_rule() -> &'static str;
}

pub fn case_hash<C: Serialize>(c: &C) -> u64 {
    let s = serde_json::to_string(c).unwrap_or_default();
    let mut h = Fnv::default();
    h.bytes(s.as_bytes());
    h.0
}

#[derive(Serialize, Deserialize, Clone, Debug)]
pub struct ReplayFile {
    pub engine: String,
    pub property: String,
    pub clause: String,
    pub detail: String,
    pub seed: u64,
    pub run_index: u64,
    pub trace_hash: String,
    pub minimised: bool,
    pub shrink_executions: u64,
    pub case: serde_json::Value,
    pub trace: Vec<String>,
}

#[derive(Deserialize, Clone, Debug)]
pub struct KnownFinding {
    pub property: String,
    pub id: String,
    pub status: String,
    #[serde(default)]
    pub commit: Option<String>,
    pub signature: String,
    pub description: String,
}

pub fn load_known_findings() -> Vec<KnownFinding> {
    let p = verif_root().join("known_findings.json");
    match std::fs::read_to_string(&p) {
        Ok(s) => match serde_json::from_str::<Vec<KnownFinding>>(&s) {
            Ok(v) => v,
            Err(e) => {
                eprintln!("HARNESS-ERROR: cannot parse {}: {e}", p.display());
                std::process::exit(2);
            }
        },
        Err(_) => Vec::new(),
    }
}

pub fn verif_root() -> std::path::PathBuf {
    std::env::var("VERIF_ROOT").map(std::path::PathBuf::from).unwrap_or_else(|_| std::path::PathBuf::from("/verif"))
}

#[derive(Default)]
struct Agg {
    evaluations: u64,
    nontrivial: BTreeSet<u64>,
    schedules: BTreeSet<u64>,
    states: BTreeSet<u64>,
    steps: u64,
    contested: u64,
    sim_time_ns: u64,
    api_calls: u64,
    probes: BTreeMap<&'static str, u64>,
    fired: BTreeMap<String, u64>,
    configured: BTreeMap<String, u64>,
    strategies: BTreeMap<&'static str, u64>,
    fault_runs: u64,
    fault_free_runs: u64,
    sweep_runs: u64,
    violations: Vec<(u64, Violation, serde_json::Value)>,
    harness_errors: Vec<String>,
    samples: Vec<serde_json::Value>,
    /// violations seen on pooled threads that did not reproduce in the clean room
    tainted: u64,
    tainted_examples: Vec<String>,
    /// (run index, violation as seen on pooled threads, pinned case) of some of them
    tainted_cases: Vec<(u64, Violation, serde_json::Value)>,
}

impl Agg {
    fn absorb<E: Engine>(&mut self, case: &E::Case, o: &Outcome, idx: u64, prop: &str, is_sweep: bool) {
        self.evaluations += 1;
        if is_sweep {
            self.sweep_runs += 1;
        }
        let fault_case = E::is_fault_case(case);
        if fault_case {
            self.fault_runs += 1;
        } else {
            self.fault_free_runs += 1;
        }
        let fired: u64 = o.faults_fired.values().sum();
        if o.api_calls >= 2 && (!fault_case || fired >= 1) {
            let mut h = Fnv::default();
            h.u64(case_hash(case));
            h.u64(o.schedule_hash);
            if self.nontrivial.len() < DISTINCT_CAP_PER_WORKER {
                self.nontrivial.insert(h.0);
            }
        }
        if self.schedules.len() < DISTINCT_CAP_PER_WORKER {
            self.schedules.insert(o.schedule_hash);
        }
        for s in &o.state_hashes {
            if self.states.len() < DISTINCT_CAP_PER_WORKER / 2 {
                self.states.insert(*s);
            }
        }
        self.steps += o.steps;
        self.contested += o.contested;
        self.sim_time_ns += o.sim_time_ns;
        self.api_calls += o.api_calls;
        for (k, v) in &o.probes {
            *self.probes.entry(k).or_insert(0) += v;
        }
        for (k, v) in &o.faults_fired {
            *self.fired.entry(k.clone()).or_insert(0) += v;
        }
        for (k, v) in &o.faults_configured {
            *self.configured.entry(k.clone()).or_insert(0) += v;
        }
        *self.strategies.entry(o.strategy).or_insert(0) += 1;
        if let Some(e) = &o.harness_error {
            if self.harness_errors.len() < 5 {
                self.harness_errors.push(format!("run {idx}: {e}"));
            }
        }
        for v in &o.violations {
            if v.concerns(prop) && self.violations.len() < 64 {
                let pinned = E::pin_schedule(case, o);
                self.violations.push((idx, v.clone(), serde_json::to_value(&pinned).unwrap()));
            }
        }
        if self.samples.len() < 3 && o.api_calls >= 2 && self.evaluations % 97 == 1 {
            self.samples.push(serde_json::to_value(case).unwrap());
        }
    }

    fn merge(&mut self, o: Agg) {
        self.evaluations += o.evaluations;
        self.tainted += o.tainted;
        for c in o.tainted_cases {
            if self.tainted_cases.len() < 8 {
                self.tainted_cases.push(c);
            }
        }
        for e in o.tainted_examples {
            if self.tainted_examples.len() < 3 {
                self.tainted_examples.push(e);
            }
        }
        for x in o.nontrivial {
            if self.nontrivial.len() >= DISTINCT_CAP_TOTAL {
                break;
            }
            self.nontrivial.insert(x);
        }
        for x in o.schedules {
            if self.schedules.len() >= DISTINCT_CAP_TOTAL {
                break;
            }
            self.schedules.insert(x);
        }
        for x in o.states {
            if self.states.len() >= DISTINCT_CAP_TOTAL {
                break;
            }
            self.states.insert(x);
        }
        self.steps += o.steps;
        self.contested += o.contested;
        self.sim_time_ns += o.sim_time_ns;
        self.api_calls += o.api_calls;
        for (k, v) in o.probes {
            *self.probes.entry(k).or_insert(0) += v;
        }
        for (k, v) in o.fired {
            *self.fired.entry(k).or_insert(0) += v;
        }
        for (k, v) in o.configured {
            *self.configured.entry(k).or_insert(0) += v;
        }
        for (k, v) in o.strategies {
            *self.strategies.entry(k).or_insert(0) += v;
        }
        self.fault_runs += o.fault_runs;
        self.fault_free_runs += o.fault_free_runs;
        self.sweep_runs += o.sweep_runs;
        self.violations.extend(o.violations);
        self.harness_errors.extend(o.harness_errors);
        for s in o.samples {
            if self.samples.len() < 4 {
                self.samples.push(s);
            }
        }
    }
}

pub struct BatchArgs {
    pub prop: String,
    pub tier: Tier,
    pub seed: u64,
    pub runs: u64,
    pub jobs: usize,
    /// do the single-fault sweep on every n-th run (0 = never)
    pub sweep_every: u64,
    pub level_note: String,
    pub write_evidence: bool,
    pub max_wall_s: u64,
    /// an additional, independent check run after the batch (C18: Miri); returns
    /// (evidence fragment, replay path of a violation, harness error)
    pub extra: Option<fn(&BatchArgs) -> (serde_json::Value, Option<String>, Option<String>)>,
}

pub fn run_seed(base: u64, engine_id: u64, idx: u64) -> u64 {
    mix(&[base, engine_id, idx])
}

/// Generate the case of run `idx` (pure function of seed, engine, focus, tier, idx).
pub fn gen_case<E: Engine>(seed: u64, focus: &str, tier: Tier, idx: u64) -> E::Case {
    let mut rng = Rng::new(run_seed(seed, E::ID, idx));
    E::generate(&mut rng, focus, tier)
}

/// Run a batch for one property on one engine. Returns the process exit code.
pub fn run_batch<E: Engine>(args: &BatchArgs) -> i32 {
    run_batch_ev::<E>(args).0
}

/// Execute a case in the clean room: on a brand-new OS thread, every simulated task on a brand-new
/// OS thread. The exploration batch pools threads for speed; a pooled thread carries whatever
/// thread-local state the code under test left behind in earlier runs, so what the batch sees is
/// only a candidate until it has been reproduced here. Minimisation and replay run here as well.
pub fn execute_clean<E: Engine>(case: &E::Case, want_trace: bool) -> Outcome {
    cadence_dsim::kernel::in_clean_room(|| E::execute(case, want_trace))
}

/// Like `run_batch`, also returning the evidence document (written to disk only if asked).
pub fn run_batch_ev<E: Engine>(args: &BatchArgs) -> (i32, serde_json::Value) {
    let t0 = Instant::now();
    let next = AtomicU64::new(0);
    let stop = AtomicBool::new(false);
    let total = Mutex::new(Agg::default());
    let jobs = args.jobs.max(1);
    std::thread::scope(|s| {
        for _ in 0..jobs {
            s.spawn(|| {
                let mut agg = Agg::default();
                loop {
                    if stop.load(Ordering::Relaxed) {
                        break;
                    }
                    let idx = next.fetch_add(1, Ordering::Relaxed);
                    if idx >= args.runs {
                        break;
                    }
                    if args.max_wall_s > 0 && idx % 64 == 0 && t0.elapsed().as_secs() > args.max_wall_s {
                        stop.store(true, Ordering::Relaxed);
                        break;
                    }
                    let case = gen_case::<E>(args.seed, &args.prop, args.tier, idx);
                    let confirm = |c: &E::Case, mut o: Outcome, agg: &mut Agg| -> Outcome {
                        // a violation seen on pooled threads is a candidate: confirm it in the clean room
                        if o.violations.iter().any(|v| v.concerns(&args.prop)) {
                            let oc = execute_clean::<E>(c, false);
                            if oc.violations.iter().any(|v| v.concerns(&args.prop)) {
                                o.violations = oc.violations;
                                o.schedule = oc.schedule;
                                o.schedule_hash = oc.schedule_hash;
                                o.trace_hash = oc.trace_hash;
                            } else {
                                agg.tainted += 1;
                                if agg.tainted_cases.len() < 4 {
                                    if let Some(v) = o.violations.iter().find(|v| v.concerns(&args.prop)) {
                                        let pinned = E::pin_schedule(c, &o);
                                        agg.tainted_cases.push((idx, v.clone(), serde_json::to_value(&pinned).unwrap()));
                                    }
                                }
                                if agg.tainted_examples.len() < 3 {
                                    agg.tainted_examples.push(format!("run {idx}: {}", o.violations.iter().map(|v| v.clause.as_str()).collect::<Vec<_>>().join(",")));
                                }
                                o.violations.clear();
                            }
                        }
                        o
                    };
                    let o = E::execute(&case, false);
                    let o = confirm(&case, o, &mut agg);
                    agg.absorb::<E>(&case, &o, idx, &args.prop, false);
                    if args.sweep_every > 0 && idx % args.sweep_every == 0 && o.violations.is_empty() {
                        for v in E::sweep(&case, &o) {
                            let so = E::execute(&v, false);
                            let so = confirm(&v, so, &mut agg);
                            agg.absorb::<E>(&v, &so, idx, &args.prop, true);
                        }
                    }
                    // a run of violations is pointless to continue at full length
                    if agg.violations.len() >= 32 {
                        stop.store(true, Ordering::Relaxed);
                    }
                }
                total.lock().unwrap().merge(agg);
            });
        }
    });
    let mut agg = total.into_inner().unwrap();
    let explore_wall = t0.elapsed().as_secs_f64();
    let truncated = stop.load(Ordering::Relaxed) && agg.violations.len() < 32;

    let mut exit = 0;
    let mut harness_errors = agg.harness_errors.clone();

    // probes that must have fired
    for p in E::required_probes(&args.prop) {
        if agg.probes.get(p).copied().unwrap_or(0) == 0 && agg.violations.is_empty() && !truncated {
            harness_errors.push(format!("probe '{p}' stuck at zero: the workload never reached the condition this property is about"));
        }
    }

    // Candidates that did not reproduce in the in-process clean room get one more chance in a
    // brand-new PROCESS (no state of any earlier run at all, not even process-wide statics): a
    // violation that shows there twice, identically, is reported as it is (not minimised).
    let mut fresh_process_reports: Vec<(String, Violation)> = Vec::new();
    if agg.tainted > 0 && agg.violations.is_empty() {
        for (idx, v, cval) in agg.tainted_cases.iter() {
            let case: E::Case = match serde_json::from_value(cval.clone()) {
                Ok(c) => c,
                Err(_) => continue,
            };
            let mut o = Outcome::default();
            o.trace.push("(not minimised: this violation reproduces in a brand-new process but not after other runs in the same process)".into());
            let file = write_replay::<E>(&args.prop, &case, &o, v, args.seed, *idx, false, 0);
            let a = replay_in_child(&file);
            let b = replay_in_child(&file);
            match (a, b) {
                (Some((ca, ha)), Some((cb, hb))) if ca == v.clause && cb == v.clause && ha == hb => {
                    fresh_process_reports.push((file, v.clone()));
                    break;
                }
                _ => {
                    let _ = std::fs::remove_file(&file);
                }
            }
        }
    }
    if agg.tainted > 0 && agg.violations.is_empty() && fresh_process_reports.is_empty() {
        harness_errors.push(format!(
            "{} run(s) of the batch showed a violation that did not reproduce in isolation (brand-new threads, same case and schedule), e.g. {:?}: state is leaking between runs - the code under test keeps thread-local or process-wide state. No isolated reproduction was found, so nothing is reported as a violation",
            agg.tainted, agg.tainted_examples
        ));
    }

    // group violations by clause; keep the smallest case per clause
    let mut by_clause: BTreeMap<String, (u64, Violation, serde_json::Value)> = BTreeMap::new();
    agg.violations.sort_by_key(|(idx, _, c)| (c.to_string().len(), *idx));
    for (idx, v, c) in agg.violations.iter() {
        by_clause.entry(v.clause.clone()).or_insert((*idx, v.clone(), c.clone()));
    }
    let known = load_known_findings();
    let mut reported = Vec::new();
    let mut known_lines = BTreeSet::new();
    let mut n_unlisted = 0;
    for (clause, (idx, v, cval)) in by_clause.iter().take(6) {
        let case: E::Case = serde_json::from_value(cval.clone()).expect("case roundtrip");
        let (min_case, min_out, min_v, execs) = minimise::<E>(&case, &args.prop, clause, 1500);
        let sig = E::signature(&min_case, &min_out, &min_v);
        if let Some(sig) = &sig {
            if let Some(k) = known.iter().find(|k| k.status == "known" && k.property == args.prop && &k.signature == sig) {
                known_lines.insert(format!("KNOWN-FINDING: property={} {} ({})", args.prop, k.description, k.id));
                continue;
            }
        }
        let file = write_replay::<E>(&args.prop, &min_case, &min_out, &min_v, args.seed, *idx, true, execs);
        // re-verify in a fresh process
        match verify_replay_in_child(&file, &args.prop, clause, min_out.trace_hash) {
            Ok(()) => {
                n_unlisted += 1;
                reported.push((file.clone(), min_v.clone()));
                println!("VIOLATION property={} replay={}", args.prop, file);
                println!("  clause: {}", min_v.clause);
                println!("  detail: {}", min_v.detail);
                if let Some(s) = sig {
                    println!("  signature: {s}");
                }
                let _ = v;
            }
            Err(e) => {
                harness_errors.push(format!("replay {file} did not reproduce in a fresh process: {e}"));
            }
        }
    }
    for (file, v) in &fresh_process_reports {
        n_unlisted += 1;
        reported.push((file.clone(), v.clone()));
        println!("VIOLATION property={} replay={}", args.prop, file);
        println!("  clause: {}", v.clause);
        println!("  detail: {}", v.detail);
        println!("  note: reproduces in a brand-new process (twice, identically), not after other runs in the same process: the code under test keeps process-wide state");
    }
    for l in &known_lines {
        println!("{l}");
    }
    let mut extra_json = serde_json::Value::Null;
    if let Some(f) = args.extra {
        let (j, viol, err) = f(args);
        extra_json = j;
        if let Some(path) = viol {
            n_unlisted += 1;
            println!("VIOLATION property={} replay={}", args.prop, path);
            reported.push((path, Violation::new(&[&args.prop], "second-opinion", String::new())));
        }
        if let Some(e) = err {
            harness_errors.push(e);
        }
    }
    if n_unlisted > 0 {
        exit = 1;
    }
    if !harness_errors.is_empty() {
        for e in &harness_errors {
            eprintln!("HARNESS-ERROR: {e}");
        }
        if exit == 0 {
            exit = 2;
        }
    }

    let wall = t0.elapsed().as_secs_f64();
    let mut ev_doc = serde_json::Value::Null;
    {
        let runs_per_hour = if explore_wall > 0.0 { agg.evaluations as f64 / explore_wall * 3600.0 } else { 0.0 };
        let ev = serde_json::json!({
            "property_id": args.prop,
            "tier": args.tier.name(),
            "seed": args.seed,
            "level": "exploration",
            "coverage": {
                "evaluations": agg.evaluations,
                "distinct_nontrivial": agg.nontrivial.len(),
                "rule": E::nontrivial_rule(),
                "samples": agg.samples,
                "engine": E::NAME,
                "runs_requested": args.runs,
                "truncated_by_wall_clock": truncated,
                "fault_free_runs": agg.fault_free_runs,
                "fault_injecting_runs": agg.fault_runs,
                "single_fault_sweep_runs": agg.sweep_runs,
                "api_calls": agg.api_calls,
                "simulated_steps": agg.steps,
                "contested_scheduling_points": agg.contested,
                "simulated_time_ns": agg.sim_time_ns,
                "simulated_time_note": "the shipped code reads no clock and sets no timer; simulated time advances only if a variant sleeps or uses timeouts, so reach is reported in logical steps",
                "runs_per_hour": runs_per_hour.round(),
                "distinct_counts_saturate_at": DISTINCT_CAP_TOTAL,
                "distinct_schedules": agg.schedules.len(),
                "distinct_abstract_states": agg.states.len(),
                "scheduler_strategies": agg.strategies,
                "faults_configured": agg.configured,
                "faults_fired": agg.fired,
                "probes": agg.probes,
                "real_vs_stub": E::real_vs_stub(),
                "second_opinion": extra_json,
                "known_findings_seen": known_lines.iter().cloned().collect::<Vec<_>>(),
                "replays": reported.iter().map(|(f, _)| f.clone()).collect::<Vec<_>>(),
                "harness_errors": harness_errors,
                "caveats": std::env::var("VERIF_CAVEATS").ok().filter(|c| !c.is_empty()).map(|c| c.lines().map(|l| l.to_string()).collect::<Vec<_>>()).unwrap_or_default(),
                "isolation": {
                    "exploration": "pooled OS threads (one per simulated task, reused across runs)",
                    "confirmation_minimisation_replay": "clean room: brand-new OS thread per simulated task, so thread-local state of the code under test cannot leak in from earlier runs",
                    "candidates_not_reproduced_in_isolation": agg.tainted,
                },
            },
            "assumptions": [
                args.level_note,
                "sampling, not proof: a clean batch bounds the probability of the sampled bug classes only",
                "simulated executions are sequentially consistent (one task runs at a time); weak-memory effects are covered only for C18",
            ],
            "wall_s": wall,
            "violations": n_unlisted,
        });
        if args.write_evidence {
            if let Err(e) = write_evidence_file(&args.prop, &ev) {
                eprintln!("HARNESS-ERROR: {e}");
                if exit == 0 {
                    exit = 2;
                }
            }
        }
        ev_doc = ev;
    }
    println!(
        "{} {} [{}] engine={} runs={} nontrivial={} schedules={} steps={} violations={} wall={:.1}s",
        if exit == 0 { "PASS" } else if exit == 1 { "FAIL" } else { "ERROR" },
        args.prop,
        args.tier.name(),
        E::NAME,
        agg.evaluations,
        agg.nontrivial.len(),
        agg.schedules.len(),
        agg.steps,
        n_unlisted,
        wall
    );
    (exit, ev_doc)
}

pub fn write_evidence_file(prop: &str, ev: &serde_json::Value) -> Result<(), String> {
    let dir = verif_root().join("evidence");
    let _ = std::fs::create_dir_all(&dir);
    let path = dir.join(format!("{prop}.json"));
    std::fs::write(&path, serde_json::to_string_pretty(ev).unwrap()).map_err(|e| format!("cannot write evidence {}: {e}", path.display()))
}

/// Delta-debugging style minimisation: repeatedly take the first one-step simplification that
/// still fails the same oracle clause for the same property.
pub fn minimise<E: Engine>(case: &E::Case, prop: &str, clause: &str, budget: u64) -> (E::Case, Outcome, Violation, u64) {
    let mut execs = 0u64;
    let mut best = case.clone();
    let mut best_out = execute_clean::<E>(&best, false);
    execs += 1;
    let find = |o: &Outcome| o.violations.iter().find(|v| v.clause == clause && v.concerns(prop)).cloned();
    let mut best_v = match find(&best_out) {
        Some(v) => v,
        None => {
            // does not reproduce at all: report as is; the replay verification will flag it
            let v = Violation::new(&[prop], clause, "did not reproduce during minimisation".into());
            return (best, best_out, v, execs);
        }
    };
    best = E::pin_schedule(&best, &best_out);
    'outer: loop {
        if execs >= budget {
            break;
        }
        for cand in E::shrink(&best) {
            if execs >= budget {
                break 'outer;
            }
            let o = execute_clean::<E>(&cand, false);
            execs += 1;
            if o.harness_error.is_some() {
                continue;
            }
            if let Some(v) = find(&o) {
                best = E::pin_schedule(&cand, &o);
                best_out = o;
                best_v = v;
                continue 'outer;
            }
        }
        break;
    }
    // final run with a textual trace, and make sure it is stable
    let o = execute_clean::<E>(&best, true);
    execs += 1;
    if let Some(v) = find(&o) {
        best_v = v;
        best_out = o;
    }
    (best, best_out, best_v, execs)
}

pub fn write_replay<E: Engine>(prop: &str, case: &E::Case, out: &Outcome, v: &Violation, seed: u64, idx: u64, minimised: bool, execs: u64) -> String {
    let dir = verif_root().join("replays");
    let _ = std::fs::create_dir_all(&dir);
    let mut h = Fnv::default();
    h.bytes(v.clause.as_bytes());
    let name = format!("{}-{}-{}-{:08x}.json", prop, E::NAME, idx, (h.0 as u32));
    let path = dir.join(name);
    let rf = ReplayFile {
        engine: E::NAME.to_string(),
        property: prop.to_string(),
        clause: v.clause.clone(),
        detail: v.detail.clone(),
        seed,
        run_index: idx,
        trace_hash: format!("{:016x}", out.trace_hash),
        minimised,
        shrink_executions: execs,
        case: serde_json::to_value(case).unwrap(),
        trace: out.trace.clone(),
    };
    std::fs::write(&path, serde_json::to_string_pretty(&rf).unwrap()).expect("write replay file");
    path.to_string_lossy().into_owned()
}

/// Run `sim replay <file> --quiet` in a brand-new process: Some((clause, trace hash)) if it reproduced.
fn replay_in_child(file: &str) -> Option<(String, String)> {
    let exe = std::env::current_exe().ok()?;
    let out = std::process::Command::new(exe).arg("replay").arg(file).arg("--quiet").output().ok()?;
    if out.status.code() != Some(1) {
        return None;
    }
    let stdout = String::from_utf8_lossy(&out.stdout);
    let l = stdout.lines().find(|l| l.starts_with("REPLAYED "))?;
    let clause = l.split_whitespace().find_map(|w| w.strip_prefix("clause="))?.to_string();
    let hash = l.split_whitespace().find_map(|w| w.strip_prefix("trace_hash="))?.to_string();
    Some((clause, hash))
}

fn verify_replay_in_child(file: &str, prop: &str, clause: &str, trace_hash: u64) -> Result<(), String> {
    let exe = std::env::current_exe().map_err(|e| e.to_string())?;
    let out = std::process::Command::new(exe)
        .arg("replay")
        .arg(file)
        .arg("--quiet")
        .output()
        .map_err(|e| e.to_string())?;
    let stdout = String::from_utf8_lossy(&out.stdout);
    let want = format!("REPLAYED property={prop} clause={clause} trace_hash={trace_hash:016x}");
    if out.status.code() == Some(1) && stdout.lines().any(|l| l.trim() == want) {
        Ok(())
    } else {
        Err(format!("exit={:?} stdout={}", out.status.code(), stdout.chars().take(400).collect::<String>()))
    }
}

/// Replay a file: exit 1 and print the same clause + trace hash if the violation reproduces.
pub fn replay<E: Engine>(rf: &ReplayFile, quiet: bool) -> i32 {
    let case: E::Case = match serde_json::from_value(rf.case.clone()) {
        Ok(c) => c,
        Err(e) => {
            eprintln!("HARNESS-ERROR: cannot decode case: {e}");
            return 2;
        }
    };
    let o = execute_clean::<E>(&case, true);
    if let Some(e) = &o.harness_error {
        eprintln!("HARNESS-ERROR: {e}");
        return 2;
    }
    match o.violations.iter().find(|v| v.clause == rf.clause && v.concerns(&rf.property)) {
        Some(v) => {
            println!("REPLAYED property={} clause={} trace_hash={:016x}", rf.property, v.clause, o.trace_hash);
            if !quiet {
                println!("VIOLATION property={} replay=(this file)", rf.property);
                println!("  detail: {}", v.detail);
                for l in &o.trace {
                    println!("  | {l}");
                }
            }
            1
        }
        None => {
            println!("NOT-REPRODUCED property={} clause={} (violations now: {:?})", rf.property, rf.clause, o.violations.iter().map(|v| &v.clause).collect::<Vec<_>>());
            0
        }
    }
}

/// Determinism self-test: every seed is executed twice (on different worker threads) and the
/// trace hashes, violation lists and schedules must agree.
pub fn selftest<E: Engine>(focus: &str, seeds: u64, jobs: usize, base_seed: u64) -> Result<u64, String> {
    let run = |jobs: usize, clean: bool| -> Vec<(u64, u64, usize)> {
        let next = AtomicU64::new(0);
        let out = Mutex::new(vec![(0u64, 0u64, 0usize); seeds as usize]);
        std::thread::scope(|s| {
            for _ in 0..jobs {
                s.spawn(|| loop {
                    let idx = next.fetch_add(1, Ordering::Relaxed);
                    if idx >= seeds {
                        break;
                    }
                    let case = gen_case::<E>(base_seed, focus, Tier::Quick, idx);
                    let o = if clean { execute_clean::<E>(&case, false) } else { E::execute(&case, false) };
                    out.lock().unwrap()[idx as usize] = (o.trace_hash, o.schedule_hash, o.violations.len());
                });
            }
        });
        out.into_inner().unwrap()
    };
    let a = run(1.max(jobs / 4), false);
    let b = run(jobs, false);
    // third execution in the clean room (brand-new OS threads): pooling must not change anything
    let c = run(jobs, true);
    for i in 0..seeds as usize {
        if a[i] != b[i] {
            return Err(format!("engine {} focus {focus} run {i}: {:?} vs {:?}", E::NAME, a[i], b[i]));
        }
        if a[i] != c[i] {
            return Err(format!("engine {} focus {focus} run {i}: pooled {:?} vs clean room {:?}", E::NAME, a[i], c[i]));
        }
    }
    Ok(seeds)
}

// ---- small helpers shared by the engines ----

#[derive(Clone, Copy, Debug, PartialEq, Eq, Serialize, Deserialize)]
pub enum SchedKind {
    Uniform,
    Pct,
    Bursty,
    StarveWorker,
    FavourWorker,
}

#[derive(Clone, Debug, Serialize, Deserialize)]
pub struct SchedSpec {
    pub kind: SchedKind,
    pub seed: u64,
    pub depth: u32,
    /// explicit recorded schedule; when present it overrides kind/seed
    pub explicit: Option<Vec<u32>>,
}

impl SchedSpec {
    pub fn generate(rng: &mut Rng, weights: &[u32; 5]) -> SchedSpec {
        let kind = match rng.weighted(weights) {
            0 => SchedKind::Uniform,
            1 => SchedKind::Pct,
            2 => SchedKind::Bursty,
            3 => SchedKind::StarveWorker,
            _ => SchedKind::FavourWorker,
        };
        SchedSpec { kind, seed: rng.next_u64(), depth: rng.range(1, 4) as u32, explicit: None }
    }

    pub fn strategy(&self, horizon: u64) -> cadence_dsim::Strategy {
        use cadence_dsim::Strategy;
        if let Some(e) = &self.explicit {
            return Strategy::Replay(e.clone());
        }
        match self.kind {
            SchedKind::Uniform => Strategy::Uniform,
            SchedKind::Pct => Strategy::Pct { depth: self.depth, horizon },
            SchedKind::Bursty => Strategy::Bursty { mean: 2 + self.depth * 3 },
            SchedKind::StarveWorker => Strategy::StarveAnon,
            SchedKind::FavourWorker => Strategy::FavourAnon,
        }
    }

    pub fn name(&self) -> &'static str {
        if self.explicit.is_some() {
            return "replay";
        }
        match self.kind {
            SchedKind::Uniform => "uniform",
            SchedKind::Pct => "pct",
            SchedKind::Bursty => "bursty",
            SchedKind::StarveWorker => "starve_worker",
            SchedKind::FavourWorker => "favour_worker",
        }
    }

    /// schedule simplifications: shorter explicit schedules (suffix replaced by the fallback policy)
    pub fn shrink(&self) -> Vec<SchedSpec> {
        let mut out = Vec::new();
        if let Some(e) = &self.explicit {
            if !e.is_empty() {
                for keep in [0, e.len() / 4, e.len() / 2, (e.len() * 3) / 4, e.len() - 1] {
                    if keep < e.len() {
                        let mut s = self.clone();
                        s.explicit = Some(e[..keep].to_vec());
                        out.push(s);
                    }
                }
            }
        }
        out
    }
}

pub fn hash_schedule(s: &[u32]) -> u64 {
    let mut h = Fnv::default();
    for c in s {
        h.u64(*c as u64);
    }
    h.0
}

pub const IO_KINDS: &[(&str, std::io::ErrorKind)] = &[
    ("NotFound", std::io::ErrorKind::NotFound),
    ("PermissionDenied", std::io::ErrorKind::PermissionDenied),
    ("ConnectionRefused", std::io::ErrorKind::ConnectionRefused),
    ("ConnectionReset", std::io::ErrorKind::ConnectionReset),
    ("ConnectionAborted", std::io::ErrorKind::ConnectionAborted),
    ("NotConnected", std::io::ErrorKind::NotConnected),
    ("AddrInUse", std::io::ErrorKind::AddrInUse),
    ("AddrNotAvailable", std::io::ErrorKind::AddrNotAvailable),
    ("BrokenPipe", std::io::ErrorKind::BrokenPipe),
    ("AlreadyExists", std::io::ErrorKind::AlreadyExists),
    ("WouldBlock", std::io::ErrorKind::WouldBlock),
    ("InvalidInput", std::io::ErrorKind::InvalidInput),
    ("InvalidData", std::io::ErrorKind::InvalidData),
    ("TimedOut", std::io::ErrorKind::TimedOut),
    ("WriteZero", std::io::ErrorKind::WriteZero),
    ("Interrupted", std::io::ErrorKind::Interrupted),
    ("Unsupported", std::io::ErrorKind::Unsupported),
    ("UnexpectedEof", std::io::ErrorKind::UnexpectedEof),
    ("OutOfMemory", std::io::ErrorKind::OutOfMemory),
    ("Other", std::io::ErrorKind::Other),
    ("HostUnreachable", std::io::ErrorKind::HostUnreachable),
    ("NetworkUnreachable", std::io::ErrorKind::NetworkUnreachable),
    ("NetworkDown", std::io::ErrorKind::NetworkDown),
    ("StorageFull", std::io::ErrorKind::StorageFull),
    ("ResourceBusy", std::io::ErrorKind::ResourceBusy),
];

pub fn kind_by_name(n: &str) -> std::io::ErrorKind {
    IO_KINDS.iter().find(|(k, _)| *k == n).map(|(_, v)| *v).unwrap_or(std::io::ErrorKind::Other)
}

pub fn kind_name(k: std::io::ErrorKind) -> String {
    IO_KINDS.iter().find(|(_, v)| *v == k).map(|(n, _)| n.to_string()).unwrap_or_else(|| format!("{k:?}"))
}

/// Remove element i from a vector (helper for shrinkers).
pub fn without<T: Clone>(v: &[T], i: usize) -> Vec<T> {
    let mut o = v.to_vec();
    o.remove(i);
    o
}
