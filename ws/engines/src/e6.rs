//! E6 `holder` — C18: `cadence_macros::SingletonHolder<T>` under 2–4 tasks of set / get / is_set.
//! Every atomic operation and both accesses of the unsafe cell are scheduling points. Two
//! oracles: a semantic one (write-once register, judged from invoke/return step numbers) and the
//! happens-before tracker fed with the orderings written in the source.

use crate::common::*;
use cadence_dsim::kernel::{self, KConfig, Kernel, TaskInfo};
use cadence_dsim::rng::{Fnv, Rng};
use cadence_dsim::thread as sthread;
use cadence_macros::SingletonHolder;
use serde::{Deserialize, Serialize};
use std::panic::{catch_unwind, resume_unwind, AssertUnwindSafe};
use std::sync::{Arc, Mutex};

#[derive(Clone, Debug, Serialize, Deserialize, PartialEq)]
pub enum HOp {
    Set { id: u32 },
    Get,
    IsSet,
    Yield,
}

#[derive(Clone, Debug, Serialize, Deserialize)]
pub struct HCase {
    pub sched: SchedSpec,
    pub tasks: Vec<Vec<HOp>>,
}

pub struct Payload {
    id: u32,
    pattern: [u64; 6],
}

impl Payload {
    fn new(id: u32) -> Payload {
        let mut p = [0u64; 6];
        for (i, v) in p.iter_mut().enumerate() {
            *v = (id as u64 + 1).wrapping_mul(0x9E37_79B9_7F4A_7C15).rotate_left(i as u32 * 7);
        }
        Payload { id, pattern: p }
    }
    fn intact(&self) -> bool {
        let q = Payload::new(self.id);
        q.pattern == self.pattern
    }
}

#[derive(Clone, Debug)]
enum HRes {
    SetDone,
    Got { id: Option<u32>, ptr: usize, intact: bool },
    IsSet(bool),
    Panicked(String),
}

#[derive(Clone, Debug)]
struct HRec {
    task: usize,
    op: HOp,
    res: HRes,
    invoked: u64,
    returned: u64,
}

pub struct E6;

fn call<R>(f: impl FnOnce() -> R) -> Result<R, String> {
    match catch_unwind(AssertUnwindSafe(f)) {
        Ok(r) => Ok(r),
        Err(p) => {
            if kernel::is_abort(&*p) {
                resume_unwind(p);
            }
            Err(kernel::take_last_panic().unwrap_or_else(|| kernel::payload_to_string(&*p)))
        }
    }
}

fn run_prog(prog: &[HOp], holder: &SingletonHolder<Payload>, log: &Mutex<Vec<HRec>>) {
    let me = kernel::current_task().unwrap_or(0);
    for op in prog {
        // the invoke / return stamps are taken with a scheduling point around the call so that
        // "returned before invoked" is meaningful in the global step order
        kernel::yield_now();
        let invoked = kernel::steps();
        let res = match op {
            HOp::Set { id } => match call(|| holder.set(Payload::new(*id))) {
                Ok(()) => HRes::SetDone,
                Err(p) => HRes::Panicked(p),
            },
            HOp::Get => match call(|| holder.get()) {
                Ok(Some(a)) => HRes::Got { id: Some(a.id), ptr: Arc::as_ptr(&a) as usize, intact: a.intact() },
                Ok(None) => HRes::Got { id: None, ptr: 0, intact: true },
                Err(p) => HRes::Panicked(p),
            },
            HOp::IsSet => match call(|| holder.is_set()) {
                Ok(b) => HRes::IsSet(b),
                Err(p) => HRes::Panicked(p),
            },
            HOp::Yield => {
                kernel::yield_now();
                continue;
            }
        };
        let returned = kernel::steps();
        kernel::yield_now();
        log.lock().unwrap().push(HRec { task: me, op: op.clone(), res, invoked, returned });
    }
}

fn sim_main(case: HCase) -> Vec<HRec> {
    let holder: Arc<SingletonHolder<Payload>> = Arc::new(SingletonHolder::new());
    let log = Arc::new(Mutex::new(Vec::new()));
    let mut hs = Vec::new();
    for (i, prog) in case.tasks.iter().enumerate().skip(1) {
        let h = holder.clone();
        let l = log.clone();
        let prog = prog.clone();
        hs.push(sthread::spawn_named(&format!("t{i}"), move || run_prog(&prog, &h, &l)));
    }
    if let Some(p0) = case.tasks.first() {
        run_prog(p0, &holder, &log);
    }
    kernel::wait_idle();
    // a final read from main after everything else has finished (joined through wait_idle only:
    // no join edge, so this read is ordered solely by the holder's own synchronisation)
    {
        let me = kernel::current_task().unwrap_or(0);
        let invoked = kernel::steps();
        let res = match call(|| holder.get()) {
            Ok(Some(a)) => HRes::Got { id: Some(a.id), ptr: Arc::as_ptr(&a) as usize, intact: a.intact() },
            Ok(None) => HRes::Got { id: None, ptr: 0, intact: true },
            Err(p) => HRes::Panicked(p),
        };
        let returned = kernel::steps();
        log.lock().unwrap().push(HRec { task: me, op: HOp::Get, res, invoked, returned });
    }
    let v = log.lock().unwrap().clone();
    drop(hs);
    v
}

impl Engine for E6 {
    type Case = HCase;
    const NAME: &'static str = "holder";
    const ID: u64 = 6;

    fn real_vs_stub() -> serde_json::Value {
        serde_json::json!({
            "real": ["cadence-macros/src/state.rs: SingletonHolder::{new, set, get, is_set} incl. the UnsafeCell accesses"],
            "pass_through_shims": ["AtomicUsize (real atomic; each operation is a scheduling point and is reported with the Ordering written in the source)", "two tracer calls placed immediately before the two raw-pointer dereferences"],
            "stub": [],
            "second_opinion": "thorough tier: the unhooked code under Miri (-Zmiri-many-seeds, weak-memory emulation, data-race detector)"
        })
    }

    fn nontrivial_rule() -> &'static str {
        "one case = programs of 2..4 tasks over {set(v_i), get, is_set} on a fresh holder plus scheduler strategy and seed; distinct = distinct (case hash, hash of the schedule actually taken); non-trivial = at least 2 API calls of which at least one set and one read"
    }

    fn required_probes(focus: &str) -> &'static [&'static str] {
        if focus == "C20" {
            // the no-panic check does not depend on reaching the race windows
            return &[];
        }
        &["two_racing_setters", "get_during_loading", "get_none_then_some", "hb_acquire_join", "loser_returned_before_winner_completed"]
    }

    fn generate(rng: &mut Rng, _focus: &str, tier: Tier) -> HCase {
        // thorough tier: half of the cases have up to six tasks and programs twice as long
        let deep = tier == Tier::Thorough && rng.split(9).chance(1, 2);
        let mut cfg = rng.split(1);
        let mut prog = rng.split(2);
        let mut sch = rng.split(4);
        let n_tasks = 2 + cfg.usize_below(if deep { 5 } else { 3 });
        let mut next_id = 0u32;
        let setters = 1 + cfg.usize_below(n_tasks.min(3));
        let mut tasks = Vec::new();
        for t in 0..n_tasks {
            let n = 1 + prog.usize_below(if deep { 10 } else { 5 });
            let mut ops = Vec::new();
            let mut did_set = false;
            for _ in 0..n {
                let w_set = if t < setters && !did_set { 40 } else if t < setters { 6 } else { 0 };
                match prog.weighted(&[w_set, 40, 20, 6]) {
                    0 => {
                        ops.push(HOp::Set { id: next_id });
                        next_id += 1;
                        did_set = true;
                    }
                    1 => ops.push(HOp::Get),
                    2 => ops.push(HOp::IsSet),
                    _ => ops.push(HOp::Yield),
                }
            }
            tasks.push(ops);
        }
        if next_id == 0 {
            tasks[0].insert(0, HOp::Set { id: 0 });
        }
        HCase { sched: SchedSpec::generate(&mut sch, &[45, 30, 25, 0, 0]), tasks }
    }

    fn pin_schedule(case: &HCase, o: &Outcome) -> HCase {
        let mut c = case.clone();
        c.sched.explicit = Some(o.schedule.clone());
        c
    }

    fn execute(case: &HCase, want_trace: bool) -> Outcome {
        let mut out = Outcome::default();
        out.strategy = case.sched.name();
        let mut kc = KConfig::new(case.sched.seed, case.sched.strategy(60));
        kc.record_trace = want_trace;
        kc.hb = true;
        let c2 = case.clone();
        let r = Kernel::run(kc, move || sim_main(c2));
        out.steps = r.steps;
        out.contested = r.contested;
        out.trace_hash = r.trace_hash;
        out.schedule_hash = hash_schedule(&r.schedule);
        out.schedule = r.schedule.clone();
        if let Some(e) = &r.error {
            out.harness_error = Some(e.clone());
            return out;
        }
        if want_trace {
            for e in &r.trace {
                out.trace.push(format!("step {:>4} task {} {}", e.step, e.task, e.what));
            }
        }
        let recs = match &r.main {
            Some(v) => v,
            None => {
                out.violate(&["C18"], "holder.main-blocked-or-panicked", format!("main task did not finish: {:?}", r.tasks.first().map(|t| (&t.state, &t.label, &t.panicked))));
                return out;
            }
        };
        judge(recs, &r.tasks, &r.hb_violations, &r.hb_stats, &mut out, want_trace);
        out
    }

    fn shrink(case: &HCase) -> Vec<HCase> {
        let mut v = Vec::new();
        for i in (1..case.tasks.len()).rev() {
            let mut c = case.clone();
            c.tasks.remove(i);
            v.push(c);
        }
        for t in 0..case.tasks.len() {
            for i in 0..case.tasks[t].len() {
                let mut c = case.clone();
                c.tasks[t].remove(i);
                v.push(c);
            }
        }
        for s in case.sched.shrink() {
            let mut c = case.clone();
            c.sched = s;
            v.push(c);
        }
        v
    }
}

fn judge(recs: &[HRec], tasks: &[TaskInfo], hb: &[String], hbs: &cadence_dsim::hb::HbStats, out: &mut Outcome, want_trace: bool) {
    out.api_calls = recs.len() as u64;
    if want_trace {
        out.trace.push("---- calls ----".into());
        for r in recs {
            out.trace.push(format!("  task {} {:?} invoked@{} returned@{} -> {:?}", r.task, r.op, r.invoked, r.returned, r.res));
        }
    }
    for t in tasks {
        if let Some(p) = &t.panicked {
            out.violate(&["C18", "C20"], "holder.task-panicked", format!("task {} panicked: {p}", t.id));
            return;
        }
    }
    for r in recs {
        if let HRes::Panicked(p) = &r.res {
            out.violate(&["C18", "C20"], "holder.call-panicked", format!("{:?} on task {} panicked: {p}", r.op, r.task));
            return;
        }
    }
    let sets: Vec<&HRec> = recs.iter().filter(|r| matches!(r.op, HOp::Set { .. })).collect();
    let has_read = recs.iter().any(|r| matches!(r.op, HOp::Get | HOp::IsSet));
    if sets.is_empty() || !has_read {
        out.api_calls = out.api_calls.min(1);
    }
    let set_id = |r: &HRec| match r.op {
        HOp::Set { id } => id,
        _ => u32::MAX,
    };
    // ---- happens-before (the point of the property) ----
    if let Some(v) = hb.first() {
        if hbs.atomic_ops == 0 && hbs.lock_edges == 0 && hbs.fences == 0 {
            // the holder synchronises through something the hooks cannot see (std::sync::Once, an
            // unhooked lock, ...): the tracker has no edges to reason with. Not a verdict.
            out.harness_error = Some(format!("the holder's synchronisation is not observable through the hooks (no hooked atomic, fence or lock operation was seen), so the happens-before tracker cannot judge: {v}"));
            return;
        }
        out.violate(&["C18"], "holder.data-race", format!("under the orderings written in the source: {v}"));
    }
    if hbs.acquire_joins > 0 {
        out.probe("hb_acquire_join");
    }
    // ---- semantic oracle ----
    let somes: Vec<(&HRec, u32, usize, bool)> = recs
        .iter()
        .filter_map(|r| match &r.res {
            HRes::Got { id: Some(i), ptr, intact } => Some((r, *i, *ptr, *intact)),
            _ => None,
        })
        .collect();
    // one winner, one instance, fully constructed
    if let Some((_, wid, wptr, _)) = somes.first() {
        for (r, id, ptr, intact) in &somes {
            if id != wid || ptr != wptr {
                out.violate(&["C18"], "holder.two-winners", format!("get on task {} returned value #{id} @{ptr:#x} while another get returned #{wid} @{wptr:#x}", r.task));
                return;
            }
            if !intact {
                out.violate(&["C18"], "holder.torn-value", format!("get on task {} returned a value whose contents are not those of value #{id}", r.task));
                return;
            }
        }
        let winner = sets.iter().find(|s| set_id(s) == *wid);
        match winner {
            None => {
                out.violate(&["C18"], "holder.value-from-nowhere", format!("get returned value #{wid} which no set had supplied"));
                return;
            }
            Some(w) => {
                // first set wins: no other set may have returned before the winner was invoked
                if let Some(e) = sets.iter().find(|s| set_id(s) != *wid && s.returned < w.invoked) {
                    out.violate(&["C18"], "holder.later-set-replaced-earlier", format!("set #{} had returned at step {} before set #{wid} was invoked at step {}, yet #{wid} is the stored value", set_id(e), e.returned, w.invoked));
                    return;
                }
                // reads invoked after the winner's set returned must report set
                for r in recs {
                    if r.invoked > w.returned {
                        match &r.res {
                            HRes::Got { id: None, .. } => {
                                out.violate(&["C18"], "holder.none-after-set-completed", format!("get invoked at step {} (after the winning set returned at step {}) reported not set", r.invoked, w.returned));
                                return;
                            }
                            HRes::IsSet(false) => {
                                out.violate(&["C18"], "holder.none-after-set-completed", format!("is_set invoked at step {} (after the winning set returned at step {}) reported false", r.invoked, w.returned));
                                return;
                            }
                            _ => {}
                        }
                    }
                }
                if sets.iter().any(|s| set_id(s) != *wid && s.invoked < w.returned && s.returned > w.invoked) {
                    out.probe("two_racing_setters");
                }
                if sets.iter().any(|s| set_id(s) != *wid && s.returned < w.returned && s.invoked > w.invoked) {
                    out.probe("loser_returned_before_winner_completed");
                }
                if recs.iter().any(|r| matches!(r.res, HRes::Got { id: None, .. } | HRes::IsSet(false)) && r.invoked > w.invoked && r.returned < w.returned) {
                    out.probe("get_during_loading");
                }
            }
        }
    }
    // a set completed (some set returned and it was the only one invoked so far) => final state set
    if !sets.is_empty() {
        // the very last read (main, after everything finished) must see a value
        if let Some(last) = recs.last() {
            if let HRes::Got { id: None, .. } = last.res {
                out.violate(&["C18"], "holder.none-after-set-completed", "every set has returned, yet the final get reports not set".to_string());
                return;
            }
        }
    }
    // monotonic: once a read reported set, later-invoked reads report set
    let first_set_seen = recs
        .iter()
        .filter(|r| matches!(r.res, HRes::Got { id: Some(_), .. } | HRes::IsSet(true)))
        .map(|r| r.returned)
        .min();
    if let Some(s) = first_set_seen {
        for r in recs {
            if r.invoked > s {
                if matches!(r.res, HRes::Got { id: None, .. } | HRes::IsSet(false)) {
                    out.violate(&["C18"], "holder.unset-after-set-observed", format!("a read returned 'set' at step {s}, but a read invoked later at step {} reported not set", r.invoked));
                    return;
                }
            }
        }
        if recs.iter().any(|r| matches!(r.res, HRes::Got { id: None, .. }) && r.returned < s) {
            out.probe("get_none_then_some");
        }
    }
    // reads that returned before any set was invoked report none
    let first_set_invoked = sets.iter().map(|s| s.invoked).min().unwrap_or(u64::MAX);
    for r in recs {
        if r.returned < first_set_invoked {
            if matches!(r.res, HRes::Got { id: Some(_), .. } | HRes::IsSet(true)) {
                out.violate(&["C18"], "holder.set-before-any-set", format!("a read that returned at step {} (before any set was invoked) reported a value", r.returned));
                return;
            }
        }
    }
    let mut h = Fnv::default();
    for r in recs {
        h.u64(match &r.res {
            HRes::SetDone => 1,
            HRes::Got { id, .. } => 10 + id.map(|i| i as u64 + 1).unwrap_or(0),
            HRes::IsSet(b) => 2 + *b as u64,
            HRes::Panicked(_) => 9,
        });
        out.state_hashes.push(h.0);
    }
}
