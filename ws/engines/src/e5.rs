//! E5 `sockets` — C12 (concurrent emitters through a shared buffered sink), C13 (what the socket
//! sinks put on the wire) and C14 (I/O telemetry). The real sinks run over simulated datagram
//! sockets (an in-memory ledger with an injectable result per send); 1–4 caller tasks share one
//! sink or client under the seeded scheduler.

use crate::common::*;
use crate::linemodel::*;
use cadence::{
    BufferedSpyMetricSink, BufferedUdpMetricSink, BufferedUnixMetricSink, Counted, MetricSink, QueuingMetricSink, SinkStats, StatsdClient,
    UdpMetricSink, UnixMetricSink,
};
use cadence_dsim::kernel::{self, Gate, KConfig, Kernel, TState, TaskInfo};
use cadence_dsim::net::{SendOutcome, SendRec, SockCtl, UdpSocket, UnixDatagram};
use cadence_dsim::rng::{Fnv, Rng};
use cadence_dsim::thread as sthread;
use serde::{Deserialize, Serialize};
use std::panic::{catch_unwind, resume_unwind, AssertUnwindSafe};
use std::sync::{Arc, Mutex};

#[derive(Clone, Debug, Serialize, Deserialize, PartialEq, Eq)]
pub enum SinkKind {
    Udp,
    Unix,
    BufUdp,
    BufUnix,
    BufSpy,
}

#[derive(Clone, Debug, Serialize, Deserialize)]
pub enum NOp {
    /// `len` bytes; `wide` interleaves 2-byte UTF-8 characters; `ws` puts blanks at both ends and
    /// a newline inside (unbuffered sinks must not trim or re-frame anything)
    Emit { len: usize, id: u32, wide: bool, #[serde(default)] ws: bool },
    Flush,
    Stats,
    Yield,
}

#[derive(Clone, Debug, Serialize, Deserialize, PartialEq)]
pub enum NFault {
    /// plain io::Error::new(kind, "fault#i")
    Kind(String),
    /// OS error: EAGAIN 11, ECONNREFUSED 111, ENOBUFS 105, EINTR 4, ENOENT 2
    Os(i32),
    /// socket buffer full until gate 0 opens: EAGAIN when non-blocking, else the sender blocks
    Full,
}

#[derive(Clone, Debug, Serialize, Deserialize)]
pub struct NetCase {
    pub sched: SchedSpec,
    pub sink: SinkKind,
    pub cap: Option<usize>,
    pub addr_form: u8,
    pub nonblocking: bool,
    pub queuing: bool,
    /// capacity of the queuing wrapper (None = unbounded)
    #[serde(default)]
    pub queue_cap: Option<usize>,
    /// build the queuing wrapper through its builder with an error handler configured
    #[serde(default)]
    pub queue_handler: bool,
    pub via_client: bool,
    pub max_datagram: Option<usize>,
    pub tasks: Vec<Vec<NOp>>,
    pub plan: Vec<Option<NFault>>,
}

pub struct E5;

const ALPHABET: &[u8] = b"abcdefghijklmnopqrstuvwxyzABCDEFGHIJKLMNOPQRSTUVWXYZ0123456789";
const UDP_DEST: &str = "127.0.0.1:8125";
const UNIX_DEST: &str = "/sim/run/statsd.sock";

fn text_of(len: usize, id: u32, wide: bool, ws: bool, via_client: bool, nl: bool) -> String {
    let suffix = if via_client { ":1|c" } else { "" };
    let body = len.saturating_sub(suffix.len());
    let letter = ALPHABET[id as usize % ALPHABET.len()] as char;
    let mut s = String::with_capacity(len + 2);
    while s.len() < body {
        if wide && s.len() + 2 <= body && s.len() % 3 == 1 {
            s.push('é');
        } else {
            s.push(letter);
        }
    }
    if ws && !via_client && s.len() >= 3 {
        let n = s.len();
        let mut b = s.into_bytes();
        if b.iter().all(|c| c.is_ascii()) {
            // (buffered sinks: blanks at the edges only - a newline inside would be two lines)
            b[0] = b' ';
            b[n - 1] = if nl { b'\n' } else { b' ' };
            if n >= 5 {
                b[n / 2] = if nl { b'\n' } else { b' ' };
                b[n - 2] = b'\t';
            }
        }
        s = String::from_utf8(b).unwrap();
    }
    s.push_str(suffix);
    s
}

#[derive(Clone, Debug)]
enum Res {
    Ok(usize),
    Unit,
    Err(ErrId),
    Panicked(String),
}

#[derive(Clone, Debug)]
struct OpRec {
    task: usize,
    lane: usize,
    seq: usize,
    op: &'static str,
    id: u32,
    text: String,
    res: Res,
    ledger_before: usize,
    ledger_after: usize,
    blocks: u64,
    step_before: u64,
    step_after: u64,
}

#[derive(Clone, Debug, Default)]
struct StatsRead {
    label: String,
    stats: Option<(u64, u64, u64, u64)>,
    ledger_len: usize,
}

struct Obs {
    ops: Vec<OpRec>,
    ledger: Vec<SendRec>,
    spy_wire: Vec<Vec<u8>>,
    stats: Vec<StatsRead>,
    mid_stats: Vec<(u64, u64, u64, u64)>,
    final_tasks: Vec<TaskInfo>,
    ledger_len_at_drop: usize,
}

enum Front {
    Sink(Arc<dyn MetricSink + Send + Sync>),
    Client(Arc<StatsdClient>),
}

impl Clone for Front {
    fn clone(&self) -> Self {
        match self {
            Front::Sink(s) => Front::Sink(s.clone()),
            Front::Client(c) => Front::Client(c.clone()),
        }
    }
}

fn call<R>(f: impl FnOnce() -> R) -> Result<R, String> {
    match catch_unwind(AssertUnwindSafe(f)) {
        Ok(r) => Ok(r),
        Err(p) => {
            if kernel::is_abort(&*p) {
                resume_unwind(p);
            }
            Err(kernel::take_last_panic().unwrap_or_else(|| kernel::payload_to_string(&*p)))
        }
    }
}

fn metric_err_id(e: &cadence::MetricError) -> ErrId {
    use std::error::Error;
    match e.source().and_then(|s| s.downcast_ref::<std::io::Error>()) {
        Some(io) => ErrId::of(io),
        None => ErrId { kind: format!("MetricError::{:?}", e.kind()), msg: e.to_string(), os: None },
    }
}

fn stats_tuple(s: &SinkStats) -> (u64, u64, u64, u64) {
    (s.packets_sent, s.packets_dropped, s.bytes_sent, s.bytes_dropped)
}

struct Shared {
    ops: Mutex<Vec<OpRec>>,
    mid_stats: Mutex<Vec<(u64, u64, u64, u64)>>,
    ctl: Option<SockCtl>,
    stats_src: Option<Arc<dyn MetricSink + Send + Sync>>,
    buffered: bool,
}

fn run_prog(lane: usize, prog: &[NOp], front: Front, sh: &Shared, via_client: bool) {
    let me = kernel::current_task().unwrap_or(0);
    let mut seq = 0;
    for op in prog {
        let lb = sh.ctl.as_ref().map(|c| c.ledger().len()).unwrap_or(0);
        let b0 = kernel::my_stats().1;
        let s0 = kernel::steps();
        match op {
            NOp::Emit { len, id, wide, ws } => {
                let text = text_of(*len, *id, *wide, *ws, via_client, !sh.buffered);
                kernel::set_label(format!("emit #{id}"));
                let r = call(|| match &front {
                    Front::Sink(s) => s.emit(&text).map_err(|e| ErrId::of(&e)),
                    Front::Client(c) => c.count(&text[..text.len() - 4], 1).map(|_| text.len()).map_err(|e| metric_err_id(&e)),
                });
                let res = match r {
                    Ok(Ok(n)) => Res::Ok(n),
                    Ok(Err(e)) => Res::Err(e),
                    Err(p) => Res::Panicked(p),
                };
                let la = sh.ctl.as_ref().map(|c| c.ledger().len()).unwrap_or(0);
                sh.ops.lock().unwrap().push(OpRec { task: me, lane, seq, op: "emit", id: *id, text, res, ledger_before: lb, ledger_after: la, blocks: kernel::my_stats().1 - b0, step_before: s0, step_after: kernel::steps() });
                seq += 1;
            }
            NOp::Flush => {
                kernel::set_label("flush");
                let r = call(|| match &front {
                    Front::Sink(s) => s.flush().map_err(|e| ErrId::of(&e)),
                    Front::Client(c) => c.flush().map_err(|e| metric_err_id(&e)),
                });
                let res = match r {
                    Ok(Ok(())) => Res::Unit,
                    Ok(Err(e)) => Res::Err(e),
                    Err(p) => Res::Panicked(p),
                };
                let la = sh.ctl.as_ref().map(|c| c.ledger().len()).unwrap_or(0);
                sh.ops.lock().unwrap().push(OpRec { task: me, lane, seq, op: "flush", id: 0, text: String::new(), res, ledger_before: lb, ledger_after: la, blocks: kernel::my_stats().1 - b0, step_before: s0, step_after: kernel::steps() });
            }
            NOp::Stats => {
                if let Some(s) = &sh.stats_src {
                    kernel::set_label("stats");
                    if let Ok(st) = call(|| s.stats()) {
                        sh.mid_stats.lock().unwrap().push(stats_tuple(&st));
                    }
                }
            }
            NOp::Yield => kernel::yield_now(),
        }
    }
    kernel::set_label("done");
}

fn sim_main(case: NetCase) -> Obs {
    let gate = Gate::new();
    let plan: Vec<SendOutcome> = case
        .plan
        .iter()
        .map(|f| match f {
            None => SendOutcome::Ok,
            Some(NFault::Kind(k)) => SendOutcome::Err { kind: kind_by_name(k), os: None },
            Some(NFault::Os(c)) => SendOutcome::Err { kind: std::io::Error::from_raw_os_error(*c).kind(), os: Some(*c) },
            Some(NFault::Full) => SendOutcome::Full(gate.clone()),
        })
        .collect();
    kernel::set_label("construct");
    let mut ctl: Option<SockCtl> = None;
    let mut spy_rx = None;
    let base: Arc<dyn MetricSink + Send + Sync>;
    let client: Option<Arc<StatsdClient>>;
    macro_rules! finish {
        ($sink:expr) => {{
            let sink = $sink;
            if case.queuing {
                let q = if case.queue_handler {
                    let mut b = QueuingMetricSink::builder();
                    if let Some(c) = case.queue_cap {
                        b = b.with_capacity(c);
                    }
                    b.with_error_handler(|_e: std::io::Error| {}).build(sink)
                } else {
                    match case.queue_cap {
                        Some(c) => QueuingMetricSink::with_capacity(sink, c),
                        None => QueuingMetricSink::from(sink),
                    }
                };
                if case.via_client {
                    let a = Arc::new(q.clone());
                    client = Some(Arc::new(StatsdClient::from_sink("", q)));
                    base = a;
                } else {
                    client = None;
                    base = Arc::new(q);
                }
            } else if case.via_client {
                // no stats accessor through a client: C14 is judged on the other fronts
                client = Some(Arc::new(StatsdClient::from_sink("", sink)));
                base = Arc::new(cadence::NopMetricSink);
            } else {
                client = None;
                base = Arc::new(sink);
            }
        }};
    }
    match case.sink {
        SinkKind::Udp | SinkKind::BufUdp => {
            let socket = UdpSocket::bind("0.0.0.0:0").unwrap();
            socket.set_nonblocking(case.nonblocking).unwrap();
            let c = socket.ctl();
            c.set_plan(plan);
            if let Some(m) = case.max_datagram {
                c.set_max_datagram(m);
            }
            ctl = Some(c);
            let sa: std::net::SocketAddr = UDP_DEST.parse().unwrap();
            if case.sink == SinkKind::Udp {
                let s = {
                    let sock = socket;
                    match case.addr_form % 4 {
                        0 => UdpMetricSink::from(UDP_DEST, sock),
                        1 => UdpMetricSink::from(("127.0.0.1", 8125u16), sock),
                        2 => UdpMetricSink::from(sa, sock),
                        _ => UdpMetricSink::from(&[sa, "10.9.9.9:1".parse().unwrap()][..], sock),
                    }
                    .unwrap()
                };
                finish!(s);
            } else {
                let sock = socket;
                let s = match case.cap {
                    None => match case.addr_form % 4 {
                        0 => BufferedUdpMetricSink::from(UDP_DEST, sock),
                        1 => BufferedUdpMetricSink::from(("127.0.0.1", 8125u16), sock),
                        2 => BufferedUdpMetricSink::from(sa, sock),
                        _ => BufferedUdpMetricSink::from(&[sa, "10.9.9.9:1".parse().unwrap()][..], sock),
                    },
                    Some(c) => match case.addr_form % 4 {
                        0 => BufferedUdpMetricSink::with_capacity(UDP_DEST, sock, c),
                        1 => BufferedUdpMetricSink::with_capacity(("127.0.0.1", 8125u16), sock, c),
                        2 => BufferedUdpMetricSink::with_capacity(sa, sock, c),
                        _ => BufferedUdpMetricSink::with_capacity(&[sa, "10.9.9.9:1".parse().unwrap()][..], sock, c),
                    },
                }
                .unwrap();
                finish!(s);
            }
        }
        SinkKind::Unix | SinkKind::BufUnix => {
            let socket = UnixDatagram::unbound().unwrap();
            socket.set_nonblocking(case.nonblocking).unwrap();
            let c = socket.ctl();
            c.set_plan(plan);
            if let Some(m) = case.max_datagram {
                c.set_max_datagram(m);
            }
            ctl = Some(c);
            if case.sink == SinkKind::Unix {
                let s = if case.addr_form % 2 == 0 { UnixMetricSink::from(UNIX_DEST, socket) } else { UnixMetricSink::from(std::path::PathBuf::from(UNIX_DEST), socket) };
                finish!(s);
            } else {
                let s = match case.cap {
                    None => BufferedUnixMetricSink::from(UNIX_DEST, socket),
                    Some(c) => BufferedUnixMetricSink::with_capacity(std::path::Path::new(UNIX_DEST), socket, c),
                };
                finish!(s);
            }
        }
        SinkKind::BufSpy => {
            let (rx, s) = match case.cap {
                None => BufferedSpyMetricSink::new(),
                Some(c) => BufferedSpyMetricSink::with_capacity(None, Some(c)),
            };
            spy_rx = Some(rx);
            finish!(s);
        }
    }
    let front = match &client {
        Some(c) => Front::Client(c.clone()),
        None => Front::Sink(base.clone()),
    };
    drop(client);
    let has_stats = !(case.via_client && !case.queuing) && case.sink != SinkKind::BufSpy;
    let sh = Arc::new(Shared {
        ops: Mutex::new(Vec::new()),
        mid_stats: Mutex::new(Vec::new()),
        ctl: ctl.clone(),
        stats_src: if has_stats { Some(base.clone()) } else { None },
        buffered: matches!(case.sink, SinkKind::BufUdp | SinkKind::BufUnix | SinkKind::BufSpy),
    });
    for (i, prog) in case.tasks.iter().enumerate().skip(1) {
        let f = front.clone();
        let sh2 = sh.clone();
        let prog = prog.clone();
        let vc = case.via_client;
        sthread::spawn_named(&format!("e{i}"), move || run_prog(i, &prog, f, &sh2, vc));
    }
    // the "network": drains the full socket buffer once every emitter is blocked or done
    {
        let g = gate.clone();
        sthread::spawn_named("net", move || {
            kernel::set_label("net: waiting until everything else is idle");
            kernel::wait_idle();
            g.open();
        });
    }
    if let Some(p0) = case.tasks.first() {
        run_prog(0, p0, front.clone(), &sh, case.via_client);
    }
    let mut stats = Vec::new();
    let read_stats = |label: &str, stats: &mut Vec<StatsRead>| {
        let st = sh.stats_src.as_ref().map(|s| stats_tuple(&s.stats()));
        stats.push(StatsRead { label: label.to_string(), stats: st, ledger_len: ctl.as_ref().map(|c| c.ledger().len()).unwrap_or(0) });
    };
    kernel::set_label("settle: wait for emitters");
    kernel::wait_idle();
    gate.open();
    kernel::wait_idle();
    read_stats("emitters done", &mut stats);
    // final flush through the front, then stats again
    kernel::set_label("final flush");
    {
        let me = kernel::current_task().unwrap_or(0);
        let lb = ctl.as_ref().map(|c| c.ledger().len()).unwrap_or(0);
        let s0 = kernel::steps();
        let r = call(|| match &front {
            Front::Sink(s) => s.flush().map_err(|e| ErrId::of(&e)),
            Front::Client(c) => c.flush().map_err(|e| metric_err_id(&e)),
        });
        let res = match r {
            Ok(Ok(())) => Res::Unit,
            Ok(Err(e)) => Res::Err(e),
            Err(p) => Res::Panicked(p),
        };
        let la = ctl.as_ref().map(|c| c.ledger().len()).unwrap_or(0);
        sh.ops.lock().unwrap().push(OpRec { task: me, lane: 0, seq: usize::MAX, op: "final-flush", id: 0, text: String::new(), res, ledger_before: lb, ledger_after: la, blocks: 0, step_before: s0, step_after: kernel::steps() });
    }
    kernel::wait_idle();
    read_stats("after final flush", &mut stats);
    let ledger_len_at_drop = ctl.as_ref().map(|c| c.ledger().len()).unwrap_or(0);
    kernel::set_label("drop");
    let mid = sh.mid_stats.lock().unwrap().clone();
    let ops_arc = sh.clone();
    drop(front);
    drop(base);
    // sh holds stats_src (a clone of base): release it so the sink is really dropped
    let ops = {
        let o = ops_arc.ops.lock().unwrap().clone();
        o
    };
    drop(sh);
    drop(ops_arc);
    kernel::wait_idle();
    let ledger = ctl.as_ref().map(|c| c.ledger()).unwrap_or_default();
    let mut spy_wire = Vec::new();
    if let Some(rx) = spy_rx {
        while let Ok(m) = rx.try_recv() {
            spy_wire.push(m);
        }
    }
    Obs { ops, ledger, spy_wire, stats, mid_stats: mid, final_tasks: kernel::task_table(), ledger_len_at_drop }
}

impl Engine for E5 {
    type Case = NetCase;
    const NAME: &'static str = "sockets";
    const ID: u64 = 5;

    fn real_vs_stub() -> serde_json::Value {
        serde_json::json!({
            "real": ["UdpMetricSink, UnixMetricSink, BufferedUdpMetricSink, BufferedUnixMetricSink, BufferedSpyMetricSink", "UdpWriteAdapter / UnixWriteAdapter, SocketStats, get_addr", "MultiLineWriter over std::io::BufWriter", "StatsdClient (C12: shared Arc<StatsdClient>)", "QueuingMetricSink (stats() / flush() through the wrapper)"],
            "pass_through_shims": ["Mutex (real std mutex; lock/unlock are scheduling points)", "AtomicU64 of SocketStats (a scheduling point before each operation)", "crossbeam channel, thread::spawn"],
            "stub": ["UDP and Unix datagram sockets: in-memory ledger (destination, payload, result) with an injectable result per send; no real kernel socket is exercised"]
        })
    }

    fn nontrivial_rule() -> &'static str {
        "one case = (sink kind, constructor form, capacity, blocking mode, optional queuing wrapper / client front, programs of 1..4 emitter tasks, per-send fault plan, scheduler strategy and seed); distinct = distinct (case hash, hash of the schedule actually taken); non-trivial = at least 2 API calls and, for fault-injecting cases, at least one injected send failure actually fired"
    }

    fn is_fault_case(c: &NetCase) -> bool {
        c.plan.iter().any(|f| f.is_some())
    }

    fn required_probes(focus: &str) -> &'static [&'static str] {
        match focus {
            "C12" => &["lock_contended", "interleaved_batches", "concurrent_flush", "stream_through_queuing"],
            "C13" => &["wide_utf8", "whitespace_edged", "max_size_datagram", "emsgsize", "nonblocking_eagain", "send_error_returned"],
            "C19" => &["write_during_emit_judged", "shared_sink_datagram_was_needed", "lock_contended"],
            "C14" => &["concurrent_stats_updates", "stats_through_queuing", "stats_through_bounded_queue_with_refusals", "stats_through_queue_with_handler", "dropped_counted", "stats_checked"],
            _ => &[],
        }
    }

    fn generate(rng: &mut Rng, focus: &str, tier: Tier) -> NetCase {
        // thorough tier: half of the cases have programs twice as long
        let deep = tier == Tier::Thorough && rng.split(9).chance(1, 2);
        let mut cfg = rng.split(1);
        let mut prog = rng.split(2);
        let mut flt = rng.split(3);
        let mut sch = rng.split(4);
        let sink = match focus {
            "C19" => match cfg.weighted(&[50, 50]) {
                0 => SinkKind::BufUdp,
                _ => SinkKind::BufUnix,
            },
            "C12" => match cfg.weighted(&[35, 35, 30]) {
                0 => SinkKind::BufUdp,
                1 => SinkKind::BufUnix,
                _ => SinkKind::BufSpy,
            },
            "C13" => match cfg.weighted(&[30, 30, 20, 20]) {
                0 => SinkKind::Udp,
                1 => SinkKind::Unix,
                2 => SinkKind::BufUdp,
                _ => SinkKind::BufUnix,
            },
            _ => match cfg.weighted(&[30, 30, 20, 20]) {
                0 => SinkKind::Udp,
                1 => SinkKind::Unix,
                2 => SinkKind::BufUdp,
                _ => SinkKind::BufUnix,
            },
        };
        let buffered = matches!(sink, SinkKind::BufUdp | SinkKind::BufUnix | SinkKind::BufSpy);
        let cap = if buffered {
            match cfg.weighted(&[20, 80]) {
                0 => None,
                _ => {
                    if (focus == "C13" || (focus == "C12" && sink != SinkKind::BufUdp)) && cfg.chance(1, 40) {
                        // a large buffer (Unix sockets carry far more than a UDP datagram); for C12
                        // on the sinks that carry such a datagram (agent10-C12: an inner buffer
                        // smaller than the configured one splits a line at 64 KiB)
                        Some(*cfg.pick(&[9000usize, 66_000, 131_072]))
                    } else {
                        Some(*cfg.pick(&[0usize, 1, 8, 16, 24, 32, 64, 100, 1432]))
                    }
                }
            }
        } else {
            None
        };
        let n_tasks = match focus {
            "C12" => 2 + cfg.usize_below(3),
            "C19" => 1 + cfg.usize_below(4),
            "C13" => {
                if cfg.chance(3, 5) {
                    1
                } else {
                    2
                }
            }
            _ => 1 + cfg.usize_below(4),
        };
        let via_client = match focus {
            "C12" => true,
            "C13" | "C19" => false,
            _ => cfg.chance(1, 6),
        };
        let queuing = match focus {
            "C14" => cfg.chance(1, 3),
            // a queuing sink between the shared client and the buffered sink is still "one shared
            // client into a buffered sink": acknowledged metrics must leave whole, once, in each
            // thread's program order
            "C12" => cfg.chance(1, 4),
            _ => false,
        };
        let nonblocking = cfg.chance(1, 2);
        let max_datagram = if focus != "C12" && focus != "C19" && cfg.chance(1, 6) { Some(*cfg.pick(&[16usize, 64, 500])) } else { None };
        let capv = cap.unwrap_or(512);
        let mut next_id = 0u32;
        let mut tasks = Vec::new();
        // (C14: metrics beyond the UDP datagram limit on the unbuffered UDP sink — refused, and the
        // refusal must be counted: agent10-C14)
        let big_ok = focus == "C13" && !buffered && tier == Tier::Thorough || (focus == "C13" && !buffered && cfg.chance(1, 30)) || (focus == "C14" && sink == SinkKind::Udp && cfg.chance(1, 25));
        for _ in 0..n_tasks {
            let n = 1 + prog.usize_below(if deep { 16 } else { 8 });
            let mut ops = Vec::new();
            // nominal fill of the buffer if this task were alone and nothing failed: lets the
            // generator aim at exact fits (what is held + the metric, with or without its
            // terminator, == capacity), also after a flush that may have failed (agent10-C13)
            let mut fill = 0usize;
            for _ in 0..n {
                let w_flush = if buffered { 18 } else { 3 };
                match prog.weighted(&[70, w_flush, if focus == "C14" { 8 } else { 0 }, 6]) {
                    0 => {
                        let min = if via_client { 5 } else { 0 };
                        let len = if buffered && sink == SinkKind::BufUdp && focus == "C13" && prog.chance(1, 120) {
                            // beyond the UDP datagram limit through the buffered sink's bypass path
                            *prog.pick(&[65_507usize, 65_508, 66_000])
                        } else if buffered {
                            match prog.weighted(&[40, 15, 15, 10, 10, 10, 12]) {
                                0 => 1 + prog.usize_below(capv.clamp(1, 20)),
                                1 => capv.saturating_sub(1),
                                2 => capv,
                                3 => capv + 1 + prog.usize_below(30),
                                4 => capv / 2,
                                5 => prog.usize_below(12),
                                _ => capv.saturating_sub(fill + prog.usize_below(2)),
                            }
                        } else if big_ok && prog.chance(1, 6) {
                            *prog.pick(&[65_507usize, 65_508, 65_506, 9000])
                        } else {
                            match prog.weighted(&[60, 10, 10, 20]) {
                                0 => 1 + prog.usize_below(40),
                                1 => 0,
                                2 => max_datagram.unwrap_or(500) + prog.usize_below(3),
                                _ => prog.usize_below(600),
                            }
                        };
                        let wide = prog.chance(1, 3) && !via_client;
                        // (buffered socket sinks must not trim either: agent11-C13; blanks only, see text_of)
                        let ws = !wide && (!buffered || focus == "C13") && !via_client && prog.chance(1, 4);
                        let l = len.max(min);
                        fill = if l + 1 > capv {
                            0
                        } else if fill + l + 1 > capv {
                            l + 1
                        } else {
                            fill + l + 1
                        };
                        ops.push(NOp::Emit { len: l, id: next_id, wide, ws });
                        next_id += 1;
                    }
                    1 => {
                        // (a third of the time the generator assumes the flush fails: data retained)
                        if !prog.chance(1, 3) {
                            fill = 0;
                        }
                        ops.push(NOp::Flush)
                    }
                    2 => ops.push(NOp::Stats),
                    _ => ops.push(NOp::Yield),
                }
            }
            tasks.push(ops);
        }
        let mut plan = Vec::new();
        // C12 is stated for interleavings, not for failures; a quarter of its runs refuse sends all
        // the same (a failed flush of one thread must not damage what another thread emits next)
        let want_faults = match focus {
            "C12" => cfg.chance(1, 4),
            "C19" => false,
            // two emitters on a socket sink: mostly without refused sends, so that the
            // "send what remains when flushed" barrier is judged under interleavings
            "C13" if n_tasks > 1 => cfg.chance(3, 10),
            _ => cfg.chance(7, 10),
        };
        if want_faults {
            let rate = *flt.pick(&[5u64, 15, 35]);
            for _ in 0..(next_id as usize * 2 + 6) {
                plan.push(if flt.chance(rate, 100) {
                    Some(match flt.weighted(&[30, 40, 30]) {
                        0 => NFault::Kind(IO_KINDS[flt.usize_below(IO_KINDS.len())].0.to_string()),
                        1 => NFault::Os(*flt.pick(&[11, 111, 105, 4, 2])),
                        _ => NFault::Full,
                    })
                } else {
                    None
                });
            }
        }
        let weights: [u32; 5] = [45, 25, 30, 0, 0];
        let mut sched = SchedSpec::generate(&mut sch, &weights);
        if queuing {
            sched = SchedSpec::generate(&mut sch, &[35, 20, 25, 10, 10]);
        }
        // (capacity 0: a rendezvous queue; whatever such a front does when its worker is busy, what it
        // acknowledges must still reach the buffered sink whole, once and in each thread's order)
        let queue_cap = if queuing && cfg.chance(1, 2) { Some(*cfg.pick(&[1usize, 2, 4, 0])) } else { None };
        let queue_handler = queuing && cfg.chance(1, 2);
        NetCase { sched, sink, cap, addr_form: cfg.below(4) as u8, nonblocking, queuing, queue_cap, queue_handler, via_client, max_datagram, tasks, plan }
    }

    fn pin_schedule(case: &NetCase, o: &Outcome) -> NetCase {
        let mut c = case.clone();
        c.sched.explicit = Some(o.schedule.clone());
        c
    }

    fn execute(case: &NetCase, want_trace: bool) -> Outcome {
        let mut out = Outcome::default();
        out.strategy = case.sched.name();
        let mut kc = KConfig::new(case.sched.seed, case.sched.strategy(80));
        kc.record_trace = want_trace;
        kc.step_cap = 40_000;
        let c2 = case.clone();
        let r = Kernel::run(kc, move || sim_main(c2));
        out.steps = r.steps;
        out.contested = r.contested;
        out.sim_time_ns = r.now;
        out.trace_hash = r.trace_hash;
        out.schedule_hash = hash_schedule(&r.schedule);
        out.schedule = r.schedule.clone();
        if let Some(e) = &r.error {
            out.harness_error = Some(e.clone());
            return out;
        }
        if want_trace {
            for t in &r.tasks {
                out.trace.push(format!("task {} {:?} state={:?} label={:?} panicked={:?}", t.id, t.name, t.state, t.label, t.panicked));
            }
            for e in r.trace.iter().take(1500) {
                out.trace.push(format!("step {:>4} task {} {}", e.step, e.task, e.what));
            }
        }
        match &r.main {
            Some(obs) => judge(case, obs, &r.tasks, &mut out, want_trace),
            None => {
                let t0 = &r.tasks[0];
                if let Some(p) = &t0.panicked {
                    out.harness_error = Some(format!("main task panicked: {p}"));
                } else {
                    out.violate(&["C12", "C13", "C14"], "sockets.caller-blocked", format!("the main task is blocked for ever inside `{}` ({:?})", t0.label, t0.state));
                }
            }
        }
        out
    }

    fn shrink(case: &NetCase) -> Vec<NetCase> {
        let mut v = Vec::new();
        for i in (0..case.tasks.len()).rev() {
            if case.tasks.len() > 1 {
                let mut c = case.clone();
                c.tasks.remove(i);
                v.push(c);
            }
        }
        for t in 0..case.tasks.len() {
            for i in 0..case.tasks[t].len() {
                let mut c = case.clone();
                c.tasks[t].remove(i);
                v.push(c);
            }
        }
        if case.plan.iter().any(|f| f.is_some()) {
            let mut c = case.clone();
            c.plan.clear();
            v.push(c);
            for i in 0..case.plan.len() {
                if case.plan[i].is_some() {
                    let mut c = case.clone();
                    c.plan[i] = None;
                    v.push(c);
                }
            }
        }
        if case.queuing {
            let mut c = case.clone();
            c.queuing = false;
            c.queue_cap = None;
            v.push(c);
        }
        if case.queue_cap.is_some() {
            let mut c = case.clone();
            c.queue_cap = None;
            v.push(c);
        }
        if case.queue_handler {
            let mut c = case.clone();
            c.queue_handler = false;
            v.push(c);
        }
        for t in 0..case.tasks.len() {
            for i in 0..case.tasks[t].len() {
                if let NOp::Emit { len, id, wide, ws } = &case.tasks[t][i] {
                    if *wide || *ws {
                        let mut c = case.clone();
                        c.tasks[t][i] = NOp::Emit { len: *len, id: *id, wide: false, ws: false };
                        v.push(c);
                    }
                    if *len > 6 {
                        let mut c = case.clone();
                        c.tasks[t][i] = NOp::Emit { len: len / 2, id: *id, wide: *wide, ws: *ws };
                        v.push(c);
                    }
                }
            }
        }
        for s in case.sched.shrink() {
            let mut c = case.clone();
            c.sched = s;
            v.push(c);
        }
        v
    }
}

fn judge(case: &NetCase, obs: &Obs, end_tasks: &[TaskInfo], out: &mut Outcome, want_trace: bool) {
    out.api_calls = obs.ops.len() as u64;
    let buffered = matches!(case.sink, SinkKind::BufUdp | SinkKind::BufUnix | SinkKind::BufSpy);
    let socket_sink = case.sink != SinkKind::BufSpy;
    let dest = match case.sink {
        SinkKind::Udp | SinkKind::BufUdp => UDP_DEST,
        _ => UNIX_DEST,
    };
    for f in case.plan.iter().flatten() {
        out.configured(&match f {
            NFault::Kind(k) => format!("send_error:{k}"),
            NFault::Os(c) => format!("send_errno:{c}"),
            NFault::Full => "socket_buffer_full".to_string(),
        });
    }
    for r in &obs.ledger {
        if let Err((k, os, _)) = &r.result {
            out.fired(&match os {
                Some(c) => format!("send_errno:{c}"),
                None => format!("send_error:{}", kind_name(*k)),
            });
            if *os == Some(90) {
                out.probe("emsgsize");
            }
            if *os == Some(11) && r.nonblocking {
                out.probe("nonblocking_eagain");
            }
        }
        if r.payload.len() == 65_507 {
            out.probe("max_size_datagram");
        }
    }
    if want_trace {
        out.trace.push(format!("---- ops ({}) ----", obs.ops.len()));
        for o in &obs.ops {
            out.trace.push(format!("  task {} {} #{} len={} -> {:?} ledger {}..{}", o.task, o.op, o.id, o.text.len(), o.res, o.ledger_before, o.ledger_after));
        }
        out.trace.push("---- ledger ----".into());
        for r in &obs.ledger {
            out.trace.push(format!("  #{} task {:?} step {} -> {} {:?} {:?}", r.idx, r.task, r.step, r.dest, String::from_utf8_lossy(&r.payload[..r.payload.len().min(70)]), r.result));
        }
        for s in &obs.stats {
            out.trace.push(format!("stats '{}': {:?} (ledger {})", s.label, s.stats, s.ledger_len));
        }
    }
    // panics and blocked callers
    for o in &obs.ops {
        if let Res::Panicked(p) = &o.res {
            out.violate(&["C12", "C13", "C14", "C20"], "sockets.call-panicked", format!("{} on task {} panicked: {p}", o.op, o.task));
            return;
        }
    }
    for t in end_tasks {
        if let Some(p) = &t.panicked {
            out.violate(&["C20"], "sockets.task-panicked", format!("task {} ({}) panicked: {p}", t.id, t.name));
            return;
        }
    }
    for t in &obs.final_tasks {
        if !t.anon && t.id != 0 {
            if let TState::Blocked { .. } = t.state {
                out.violate(&["C12"], "sockets.caller-blocked", format!("task {} ({}) is blocked for ever inside `{}`", t.id, t.name, t.label));
                return;
            }
        }
    }
    let emits: Vec<&OpRec> = obs.ops.iter().filter(|o| o.op == "emit").collect();
    #[allow(clippy::never_loop)]
    'c13: loop {
    // destination of every datagram
    for r in &obs.ledger {
        if r.dest != dest {
            out.violate(&["C13"], "net.wrong-destination", format!("datagram #{} was sent to {:?}; the sink was constructed for {dest:?}", r.idx, r.dest));
            break 'c13;
        }
    }
    if obs.ops.iter().any(|o| o.op == "emit" && o.text.chars().any(|c| c == 'é')) {
        out.probe("wide_utf8");
    }
    if obs.ops.iter().any(|o| o.op == "emit" && o.text.starts_with(' ')) {
        out.probe("whitespace_edged");
    }


    // ---- C13 unbuffered: exactly one datagram per emit, exactly the metric's bytes ----
    if !buffered && !case.queuing {
        let mut used = vec![false; obs.ledger.len()];
        for e in &emits {
            let cands: Vec<usize> = obs
                .ledger
                .iter()
                .enumerate()
                .filter(|(i, r)| !used[*i] && r.task == Some(e.task) && *i >= e.ledger_before && *i < e.ledger_after)
                .map(|(i, _)| i)
                .collect();
            let exact: Vec<usize> = cands.iter().copied().filter(|i| obs.ledger[*i].payload == e.text.as_bytes()).collect();
            if exact.len() != 1 || cands.len() != 1 {
                let shown: Vec<String> = cands.iter().map(|i| String::from_utf8_lossy(&obs.ledger[*i].payload).chars().take(60).collect()).collect();
                out.violate(
                    &["C13"],
                    "net.unbuffered-one-datagram-exact-bytes",
                    format!("emit #{} ({} bytes, {:?}…) on task {} produced {} datagram(s) {:?}; expected exactly one whose payload is exactly the metric's bytes", e.id, e.text.len(), e.text.chars().take(30).collect::<String>(), e.task, cands.len(), shown),
                );
                break 'c13;
            }
            let r = &obs.ledger[exact[0]];
            used[exact[0]] = true;
            match (&e.res, &r.result) {
                (Res::Ok(n), Ok(m)) => {
                    if n != m {
                        out.violate(&["C13"], "net.unbuffered-result", format!("emit #{} returned Ok({n}), the socket reported {m} bytes sent", e.id));
                        break 'c13;
                    }
                }
                (Res::Err(err), Err((k, os, msg))) => {
                    out.probe("send_error_returned");
                    let want = ErrId { kind: kind_name(*k), msg: msg.clone(), os: *os };
                    if !want.same(err) {
                        out.violate(&["C13"], "net.unbuffered-result", format!("emit #{} returned {err:?}, the socket's error was {want:?}", e.id));
                        break 'c13;
                    }
                }
                (a, b) => {
                    out.violate(&["C13"], "net.unbuffered-result", format!("emit #{} returned {a:?} but the socket answered {b:?}", e.id));
                    break 'c13;
                }
            }
        }
        if used.iter().any(|u| !u) {
            out.violate(&["C13"], "net.unbuffered-extra-datagram", format!("{} datagram(s) were sent that correspond to no emit", used.iter().filter(|u| !**u).count()));
            break 'c13;
        }
    }

        break 'c13;
    }
    #[allow(clippy::never_loop)]
    'buf: loop {
    // ---- buffered sinks ----
    if buffered {
        let cap = case.cap.unwrap_or(512);
        let term = b"\n".to_vec();
        let writes: Vec<Attempt> = if socket_sink {
            obs.ledger
                .iter()
                .map(|r| Attempt {
                    payload: Some(r.payload.clone()),
                    ok: r.result.is_ok(),
                    err: r.result.as_ref().err().map(|(k, os, m)| ErrId { kind: kind_name(*k), msg: m.clone(), os: *os }),
                    task: r.task,
                })
                .collect()
        } else {
            obs.spy_wire.iter().map(|p| Attempt { payload: Some(p.clone()), ok: true, err: None, task: None }).collect()
        };
        let faulty = obs.ledger.iter().any(|r| r.result.is_err());
        if case.tasks.len() == 1 && socket_sink && !case.queuing {
            // single emitter: the sequential reference model applies (as in E2), labelled for C13
            let mut calls = Vec::new();
            for o in &obs.ops {
                let atts = writes[o.ledger_before.min(writes.len())..o.ledger_after.min(writes.len())].to_vec();
                let (kind, result) = match o.op {
                    "emit" => (
                        CallKind::Emit { text: o.text.as_bytes().to_vec(), id: o.id },
                        match &o.res {
                            Res::Ok(n) => CallResult::OkLen(*n),
                            Res::Err(e) => CallResult::Err(e.clone()),
                            _ => CallResult::Unobservable,
                        },
                    ),
                    _ => (
                        CallKind::Flush,
                        match &o.res {
                            Res::Unit => CallResult::OkUnit,
                            Res::Err(e) => CallResult::Err(e.clone()),
                            _ => CallResult::Unobservable,
                        },
                    ),
                };
                calls.push(CallRec { kind, result, attempts: atts, inner_flush_errs: Vec::new() });
            }
            calls.push(CallRec { kind: CallKind::Drop, result: CallResult::Unobservable, attempts: writes[obs.ledger_len_at_drop.min(writes.len())..].to_vec(), inner_flush_errs: Vec::new() });
            let before = out.violations.len();
            check_history(&ModelCfg { cap, term: term.clone(), mode: if faulty { Mode::Faulty } else { Mode::FaultFree } }, &calls, out);
            for v in out.violations[before..].iter_mut() {
                // what a buffered socket sink puts on the wire is C13's second sentence; under
                // injected send failures it is C07's business, not C13's
                if !faulty && !v.props.iter().any(|p| p == "C13") && !v.props.iter().all(|p| p == "C19") {
                    v.props.push("C13".to_string());
                }
                if faulty {
                    // C13's second sentence ("send what remains when flushed or dropped") keeps
                    // its conservation clauses even after a refused send; the rest is C07's
                    let remains = matches!(v.clause.as_str(), "linebuf.flush-ok-but-still-buffered" | "linebuf.drop-left-metrics-unwritten" | "linebuf.bypass-not-written" | "linebuf.ok-despite-failure");
                    // ... and its first half: "datagrams of the form described in C05" is said of
                    // every datagram a buffered socket sink sends, also of those after a refused
                    // send (agent10-C13; the same reading as C05's own, §5.2)
                    let framing = v.props.iter().any(|p| p == "C05");
                    v.props.retain(|p| p != "C13" && p != "C05" && p != "C06" && p != "C19");
                    if remains || framing {
                        v.props.push("C13".into());
                    }
                    if !v.props.iter().any(|p| p == "C07") {
                        v.props.push("C07".into());
                    }
                }
            }
        }
        // every emitter count: the stream oracle (framing, exactly once, per-emitter order)
        let texts_unique = emits.iter().all(|e| !e.text.is_empty() && (e.id as usize) < ALPHABET.len());
        if texts_unique {
            let ms: Vec<StreamMetric> = emits
                .iter()
                .map(|e| StreamMetric {
                    id: e.id,
                    text: e.text.as_bytes().to_vec(),
                    acked: matches!(e.res, Res::Ok(_)),
                    refused: matches!(e.res, Res::Err(_)),
                    emitter: if e.text.len() + 1 > cap { 1_000_000 + e.id as usize } else { e.lane },
                    seq: e.seq,
                })
                .collect();
            // conservation at the end: everything acknowledged is on the wire once the last write
            // succeeded - in fault-free histories always; after refused sends if the final flush
            // returned Ok (what was accepted stays buffered until a write succeeds); not through a
            // queuing front, where "acknowledged" only means queued
            let final_flush_returned_ok = obs.ops.iter().any(|o| o.op == "final-flush" && matches!(o.res, Res::Unit));
            let final_ok = writes.last().map(|w| w.ok).unwrap_or(true) && (!faulty || (final_flush_returned_ok && !case.queuing));
            let before = out.violations.len();
            let cons: &[&str] = if faulty { &["C07"] } else { &["C06", "C13"] };
            check_stream(cap, &term, &ms, &writes, final_ok, cons, out);
            if case.queuing {
                out.probe("stream_through_queuing");
            }
            if case.tasks.len() > 1 || case.queuing {
                // several emitters: whatever goes wrong here is about sharing the sink (C12) - and
                // it is still a violation of what the clause means for one emitter: a shared sink
                // that loses, splits or keeps back metrics does so whoever is counted as emitter
                for v in out.violations[before..].iter_mut() {
                    let mut p = vec!["C12".to_string()];
                    if faulty {
                        p.push("C07".to_string());
                        if socket_sink && v.props.iter().any(|p| p == "C05") {
                            p.push("C13".to_string());
                        }
                    } else if socket_sink {
                        p.push("C13".to_string());
                    }
                    v.props = p;
                }
            } else if faulty {
                for v in out.violations[before..].iter_mut() {
                    let framing = socket_sink && v.props.iter().any(|p| p == "C05");
                    v.props = vec!["C07".to_string()];
                    if framing {
                        v.props.push("C13".to_string());
                    }
                }
            } else if socket_sink {
                for v in out.violations[before..].iter_mut() {
                    if !v.props.iter().any(|p| p == "C13") {
                        v.props.push("C13".into());
                    }
                }
            }
            out.probe("stream_oracle_checked");
        }
        // flush barrier: a metric whose emit had returned Ok before a flush was invoked must be in a
        // successful datagram by the time that flush returns Ok (C06 through a shared sink: C12)
        if socket_sink && texts_unique && !faulty && !case.queuing {
            'barrier: for f in obs.ops.iter().filter(|o| (o.op == "flush" || o.op == "final-flush") && matches!(o.res, Res::Unit)) {
                for e in emits.iter().filter(|e| matches!(e.res, Res::Ok(_)) && e.step_after <= f.step_before) {
                    let on_wire = obs.ledger.iter().any(|r| r.result.is_ok() && r.step <= f.step_after && find_sub(&r.payload, e.text.as_bytes()));
                    if !on_wire {
                        let mut props = vec!["C06", "C13"];
                        if case.tasks.len() > 1 {
                            // "send what remains when flushed" (C13) and "written by the time a later
                            // flush returns Ok" (C06) do not stop holding because another thread
                            // was emitting at the time
                            props = vec!["C12", "C13", "C06"];
                        }
                        out.violate(&props, "stream.flush-ok-but-not-written", format!("flush on task {} returned Ok at step {} but metric #{} (acknowledged at step {}) was not yet on the wire", f.task, f.step_after, e.id, e.step_after));
                        break 'barrier;
                    }
                }
                out.probe("flush_barrier_checked");
            }
        }
        // packing under concurrency (C19 through a shared sink): a datagram that leaves during an
        // emit of metric m - and does not carry m - left because m did not fit behind it. The buffer
        // lock makes this exact for every interleaving: whatever was buffered when emit(m) made
        // room is what the datagram carries. Oversize metrics, datagrams that carry m (exact fill),
        // flushes and the drop are not judged here; nor are histories with refused sends.
        if socket_sink && texts_unique && !faulty && !case.queuing {
            'pack: for r in obs.ledger.iter().filter(|r| r.result.is_ok()) {
                let Some(t) = r.task else { continue };
                let Some(o) = obs.ops.iter().find(|o| o.task == t && r.idx >= o.ledger_before && r.idx < o.ledger_after && o.step_before <= r.step && r.step <= o.step_after) else { continue };
                if o.op != "emit" {
                    continue;
                }
                out.probe("write_during_emit_judged");
                let m = o.text.as_bytes();
                if m.len() + 1 > cap {
                    continue;
                }
                if r.payload.split(|b| *b == b'\n').any(|l| l == m) {
                    // the datagram carries m itself: only an exactly filled buffer may leave at once
                    if r.payload.len() != cap {
                        let mut props = vec!["C19"];
                        if case.tasks.len() > 1 {
                            props.push("C12");
                        }
                        out.violate(&props, "stream.sent-while-room-remained", format!("emit of metric #{} on task {} sent a datagram of {} bytes that carries the metric itself although the {cap}-byte buffer was not full", o.id, t, r.payload.len()));
                        break 'pack;
                    }
                    continue;
                }
                if r.payload.len() + m.len() + 1 <= cap {
                    let mut props = vec!["C19"];
                    if case.tasks.len() > 1 {
                        props.push("C12");
                    }
                    out.violate(&props, "stream.needless-datagram", format!("emit of metric #{} ({} bytes) on task {} sent a datagram of {} bytes although the metric and its terminator fit behind it in the {cap}-byte buffer", o.id, m.len(), t, r.payload.len()));
                    break 'pack;
                }
                if case.tasks.len() > 1 {
                    out.probe("shared_sink_datagram_was_needed");
                }
            }
        }
        // probes for C12
        if case.tasks.len() > 1 {
            if end_tasks.iter().any(|t| !t.anon && t.blocks > 0) {
                out.probe("lock_contended");
            }
            // a datagram that carries lines of two different emitters
            let by_text: std::collections::BTreeMap<&[u8], usize> = emits.iter().map(|e| (e.text.as_bytes(), e.lane)).collect();
            for w in &writes {
                if let Some(p) = &w.payload {
                    let lanes: std::collections::BTreeSet<usize> = p.split(|b| *b == b'\n').filter_map(|l| by_text.get(l).copied()).collect();
                    if lanes.len() > 1 {
                        out.probe("interleaved_batches");
                        break;
                    }
                }
            }
            let flush_tasks: std::collections::BTreeSet<usize> = obs.ops.iter().filter(|o| o.op == "flush").map(|o| o.task).collect();
            if flush_tasks.len() > 1 || (!flush_tasks.is_empty() && emits.iter().any(|e| !flush_tasks.contains(&e.task))) {
                out.probe("concurrent_flush");
            }
        }
    }

        break 'buf;
    }
    // ---- C14: telemetry adds up at quiescent points ----
    if socket_sink {
        for s in &obs.stats {
            let (ps, pd, bs, bd) = match s.stats {
                Some(t) => t,
                None => continue,
            };
            out.probe("stats_checked");
            if case.queuing {
                out.probe("stats_through_queuing");
                if case.queue_handler {
                    out.probe("stats_through_queue_with_handler");
                }
                if case.queue_cap.is_some() && emits.iter().any(|e| matches!(e.res, Res::Err(_))) {
                    out.probe("stats_through_bounded_queue_with_refusals");
                }
            }
            let led = &obs.ledger[..s.ledger_len.min(obs.ledger.len())];
            let n_ok = led.iter().filter(|r| r.result.is_ok()).count() as u64;
            let n_err = led.len() as u64 - n_ok;
            let b_ok: u64 = led.iter().filter(|r| r.result.is_ok()).map(|r| r.payload.len() as u64).sum();
            let b_err: u64 = led.iter().filter(|r| r.result.is_err()).map(|r| r.payload.len() as u64).sum();
            if n_err > 0 {
                out.probe("dropped_counted");
            }
            if ps + pd != led.len() as u64 || ps != n_ok || pd != n_err {
                out.violate(&["C14"], "stats.packets", format!("at '{}': packets_sent={ps} packets_dropped={pd}, but the socket saw {} send attempts ({n_ok} accepted, {n_err} refused)", s.label, led.len()));
                return;
            }
            if bs != b_ok || bd != b_err {
                out.violate(&["C14"], "stats.bytes", format!("at '{}': bytes_sent={bs} bytes_dropped={bd}, but the socket accepted {b_ok} bytes and refused {b_err}", s.label));
                return;
            }
            if !buffered && !case.queuing {
                let e_ok = emits.iter().filter(|e| matches!(e.res, Res::Ok(_))).count() as u64;
                let e_err = emits.iter().filter(|e| matches!(e.res, Res::Err(_))).count() as u64;
                let eb_ok: u64 = emits.iter().filter(|e| matches!(e.res, Res::Ok(_))).map(|e| e.text.len() as u64).sum();
                let eb_err: u64 = emits.iter().filter(|e| matches!(e.res, Res::Err(_))).map(|e| e.text.len() as u64).sum();
                if ps != e_ok || pd != e_err || bs != eb_ok || bd != eb_err {
                    out.violate(&["C14"], "stats.vs-emit-results", format!("at '{}': stats ({ps},{pd},{bs},{bd}) differ from the emits that returned Ok/Err ({e_ok},{e_err},{eb_ok},{eb_err})", s.label));
                    return;
                }
            }
        }
        // (C14 speaks of quiescent moments only: what a read sees in the middle of a send is not judged)
        if !obs.mid_stats.is_empty() {
            out.probe("stats_read_mid_run");
        }
        let senders: std::collections::BTreeSet<usize> = obs.ledger.iter().filter_map(|r| r.task).collect();
        if senders.len() > 1 {
            out.probe("concurrent_stats_updates");
        }
    }
    let mut h = Fnv::default();
    for r in &obs.ledger {
        h.u64(r.payload.len() as u64);
        h.u64(r.result.is_ok() as u64);
        out.state_hashes.push(h.0);
    }
}

fn find_sub(h: &[u8], n: &[u8]) -> bool {
    !n.is_empty() && h.windows(n.len()).any(|w| w == n)
}
