fn main() {
    println!("sim");
}
