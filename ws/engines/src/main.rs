//! `sim` — entry point of the simulation engines. Invoked by /verif/check.

mod common;
mod e1;
mod e2;
mod e3;
mod e5;
mod e6;
mod e7;
mod e8;
mod linemodel;

use common::*;

fn usage() -> ! {
    eprintln!("usage: sim check <PROP> [--tier quick|thorough] [--runs N] [--jobs J] [--seed S] [--no-evidence]\n       sim replay <file> [--quiet]\n       sim selftest [--seeds N]");
    std::process::exit(2);
}

struct Plan {
    engine: &'static str,
    quick_runs: u64,
    thorough_runs: u64,
    sweep_every: u64,
    note: &'static str,
}

fn plan_for(prop: &str) -> Option<Plan> {
    Some(match prop {
        "C05" | "C06" | "C19" => Plan { engine: "linebuf", quick_runs: 500_000, thorough_runs: 40_000_000, sweep_every: 25, note: "underlying writes are all-or-nothing (datagram semantics); short writes are not injected; sockets are stubs" },
        "C07" => Plan { engine: "linebuf", quick_runs: 300_000, thorough_runs: 30_000_000, sweep_every: 1, note: "underlying writes are all-or-nothing (datagram semantics); short writes are not injected; sockets are stubs" },
        "C08" | "C09" | "C10" | "C11" | "C15" | "C16" => Plan { engine: "queue", quick_runs: 250_000, thorough_runs: 20_000_000, sweep_every: 0, note: "the wrapped sink is scripted; crossbeam's blocking paths are replaced by simulated waiting; capacity 0 (rendezvous, hand-modelled) is judged for everything except C10's occupancy clauses" },
        "C12" | "C13" | "C14" => Plan { engine: "sockets", quick_runs: 200_000, thorough_runs: 20_000_000, sweep_every: 0, note: "UDP/Unix datagram sockets are in-memory stubs (ledger + injectable result per send); the real kernel socket is not exercised" },
        "C18" => Plan { engine: "holder", quick_runs: 300_000, thorough_runs: 30_000_000, sweep_every: 0, note: "the simulated execution is sequentially consistent; the memory-ordering half of the property is decided by a vector-clock happens-before tracker fed with the orderings written in the source (release sequences, acquire loads/RMWs, failed-CAS orderings, fences, lock edges of hooked mutexes, spawn/join edges)" },
        "C03" => Plan { engine: "sinkfault", quick_runs: 150_000, thorough_runs: 10_000_000, sweep_every: 10, note: "the client's sink is scripted; the text of the line is not compared with a formatter model (that is C01/C04), only 'what was returned is what was emitted'" },
        "C17" => Plan { engine: "macroproc", quick_runs: 3_000, thorough_runs: 300_000, sweep_every: 0, note: "claimed narrowly: the history dimension (unset / set / second set, failing sink) is simulated with one fresh process per case; argument forms come from a compiled-in matrix of 22 macro/value-type combinations x 0..3 tags, not from all expressible token sequences" },
        _ => return None,
    })
}

fn run_engine(name: &str, ba: &BatchArgs) -> (i32, serde_json::Value) {
    match name {
        "sinkfault" => run_batch_ev::<e1::E1>(ba),
        "linebuf" => run_batch_ev::<e2::E2>(ba),
        "queue" => run_batch_ev::<e3::E3>(ba),
        "sockets" => run_batch_ev::<e5::E5>(ba),
        "holder" => run_batch_ev::<e6::E6>(ba),
        "macroproc" => run_batch_ev::<e7::E7>(ba),
        "sharedclient" => run_batch_ev::<e8::E8>(ba),
        _ => (2, serde_json::Value::Null),
    }
}

/// A property served by more than one engine: run each part, merge into one evidence file.
#[allow(clippy::too_many_arguments)]
fn check_multi(prop: &str, tier: Tier, seed: u64, jobs: usize, parts: &[(&str, u64, u64, u64)], rule: &str, extra_cov: serde_json::Value, assumptions: Vec<String>, write: bool, scale: f64) -> i32 {
    let t0 = std::time::Instant::now();
    let mut exit = 0;
    let mut evaluations = 0u64;
    let mut nontrivial = 0u64;
    let mut samples = Vec::new();
    let mut per_engine = serde_json::Map::new();
    let mut violations = 0u64;
    for (name, rq, rt, sweep) in parts {
        let ba = BatchArgs {
            prop: prop.to_string(),
            tier,
            seed,
            runs: ((if tier == Tier::Quick { *rq } else { *rt }) as f64 * scale) as u64,
            jobs,
            sweep_every: *sweep,
            level_note: String::new(),
            write_evidence: false,
            extra: None,
            // (VERIF_MAX_WALL: per-engine wall-clock cap for background sweeps)
            max_wall_s: std::env::var("VERIF_MAX_WALL").ok().and_then(|s| s.parse().ok()).unwrap_or(if tier == Tier::Quick { 90 } else { 1500 }),
        };
        let (code, ev) = run_engine(name, &ba);
        if code == 1 {
            exit = 1;
        } else if code != 0 && exit == 0 {
            exit = 2;
        }
        let c = &ev["coverage"];
        evaluations += c["evaluations"].as_u64().unwrap_or(0);
        nontrivial += c["distinct_nontrivial"].as_u64().unwrap_or(0);
        violations += ev["violations"].as_u64().unwrap_or(0);
        if let Some(s) = c["samples"].as_array().and_then(|a| a.first()) {
            samples.push(serde_json::json!({"engine": name, "case": s}));
        }
        per_engine.insert(name.to_string(), c.clone());
    }
    let wall = t0.elapsed().as_secs_f64();
    let mut cov = serde_json::json!({
        "evaluations": evaluations,
        "distinct_nontrivial": nontrivial,
        "rule": rule,
        "samples": samples,
        "per_engine": per_engine,
        "runs_per_hour": (evaluations as f64 / wall.max(0.001) * 3600.0).round(),
        "caveats": std::env::var("VERIF_CAVEATS").ok().filter(|c| !c.is_empty()).map(|c| c.lines().map(|l| l.to_string()).collect::<Vec<_>>()).unwrap_or_default(),
    });
    if let (Some(o), Some(e)) = (cov.as_object_mut(), extra_cov.as_object()) {
        for (k, v) in e {
            o.insert(k.clone(), v.clone());
        }
    }
    let ev = serde_json::json!({
        "property_id": prop, "tier": tier.name(), "seed": seed, "level": "exploration",
        "coverage": cov, "assumptions": assumptions, "wall_s": wall, "violations": violations,
    });
    if write {
        if let Err(e) = write_evidence_file(prop, &ev) {
            eprintln!("HARNESS-ERROR: {e}");
            if exit == 0 {
                exit = 2;
            }
        }
    }
    println!("{} {prop} [{}] engines={} runs={} violations={} wall={:.1}s", if exit == 0 { "PASS" } else if exit == 1 { "FAIL" } else { "ERROR" }, tier.name(), parts.len(), evaluations, violations, wall);
    exit
}

/// C20 (claimed partially): every engine is built with overflow checks and debug assertions, wraps
/// each API call and each task root in catch_unwind, and labels an un-injected panic with C20.
/// This check runs all engines with the hostile-value focus and reports only those clauses.
fn check_c20(tier: Tier, seed: u64, get: &dyn Fn(&str) -> Option<String>, has: &dyn Fn(&str) -> bool) -> i32 {
    let scale: f64 = get("--scale").and_then(|s| s.parse().ok()).unwrap_or(1.0);
    let jobs = get("--jobs").and_then(|s| s.parse().ok()).unwrap_or_else(|| std::thread::available_parallelism().map(|n| n.get()).unwrap_or(4));
    check_multi(
        "C20",
        tier,
        seed,
        jobs,
        &[("sinkfault", 60_000, 3_000_000, 20), ("linebuf", 200_000, 10_000_000, 20), ("queue", 60_000, 3_000_000, 0), ("sockets", 40_000, 2_000_000, 0), ("holder", 20_000, 1_000_000, 0), ("macroproc", 600, 30_000, 0), ("sharedclient", 30_000, 1_500_000, 0)],
        "sum over the seven engines of their own distinct non-trivial cases (each engine's rule is under per_engine); every engine is built with -C overflow-checks=on -C debug-assertions=on, wraps each public API call and each simulated task root in catch_unwind and reports any panic it did not inject itself; generators include capacity 0/1/exact-fit buffers, queue capacity 0/1, empty / long / non-ASCII / delimiter-laden strings, NaN, +-inf, -0.0, i64::MIN, u64::MAX, Duration::MAX, empty and 3000-element packed lists",
        serde_json::json!({
            "what_is_decided_by_simulation": "the history- and fault-dependent part: capacity - written never underflowing after failed flushes, lock().unwrap() after a panic elsewhere, counters not underflowing under any interleaving, unwinding through the worker",
            "what_is_merely_exercised": "the pure-argument part (size-hint arithmetic, casts, formatting of extreme values): input generation riding on the harnesses, not simulation",
        }),
        vec![
            "claimed partially (DESIGN.md section 5.8): huge capacities and allocation failure are outside every generator; abort-on-double-panic inside a child process is reported as a harness error, not silently passed".to_string(),
            "sampling, not proof".to_string(),
        ],
        !has("--no-evidence"),
        scale,
    )
}

/// C06 is served by two engines: the line-buffering histories (E2) and flush / drop through a
/// queuing wrapper around a real buffered sink (E3).
fn check_c06(tier: Tier, seed: u64, get: &dyn Fn(&str) -> Option<String>, has: &dyn Fn(&str) -> bool) -> i32 {
    let scale: f64 = get("--scale").and_then(|s| s.parse().ok()).unwrap_or(1.0);
    let scale = get("--runs").and_then(|s| s.parse::<f64>().ok()).map(|r| r / 500_000.0).unwrap_or(scale);
    let jobs = get("--jobs").and_then(|s| s.parse().ok()).unwrap_or_else(|| std::thread::available_parallelism().map(|n| n.get()).unwrap_or(4));
    check_multi(
        "C06",
        tier,
        seed,
        jobs,
        &[("linebuf", 500_000, 40_000_000, 25), ("queue", 80_000, 6_000_000, 0)],
        "linebuf: histories of emit/flush/drop (a quarter with refused writes) judged by the reference model (see per_engine.linebuf.rule); queue: histories in which a real BufferedUdpMetricSink sits behind a QueuingMetricSink and flush() is called through the queuing handle concurrently with the worker (see per_engine.queue.rule); distinct non-trivial counts are summed",
        serde_json::json!({}),
        vec!["underlying writes are all-or-nothing (datagram semantics); sockets are stubs".to_string(), "sampling, not proof".to_string()],
        !has("--no-evidence"),
        scale,
    )
}

/// C03 is served by two engines: sequences of calls on one thread against a scripted sink (E1)
/// and one client shared by several simulated caller threads (E8).
fn check_c03(tier: Tier, seed: u64, get: &dyn Fn(&str) -> Option<String>, has: &dyn Fn(&str) -> bool) -> i32 {
    let scale: f64 = get("--scale").and_then(|s| s.parse().ok()).unwrap_or(1.0);
    let scale = get("--runs").and_then(|s| s.parse::<f64>().ok()).map(|r| r / 150_000.0).unwrap_or(scale);
    let jobs = get("--jobs").and_then(|s| s.parse().ok()).unwrap_or_else(|| std::thread::available_parallelism().map(|n| n.get()).unwrap_or(4));
    check_multi(
        "C03",
        tier,
        seed,
        jobs,
        &[("sinkfault", 150_000, 10_000_000, 10), ("sharedclient", 120_000, 10_000_000, 0)],
        "sinkfault: one caller thread, sequences of calls over every entry point and call form against a sink whose i-th emit answers from a fault plan (see per_engine.sinkfault.rule); sharedclient: one client shared by 2..4 simulated caller threads with scheduling points inside the sink and inside the error handler, judged per calling thread (see per_engine.sharedclient.rule); distinct non-trivial counts are summed",
        serde_json::json!({}),
        vec!["the client's sink is scripted; the text of the line is not compared with a formatter model (that is C01/C04), only 'what was returned is what was emitted'".to_string(), "sampling, not proof".to_string()],
        !has("--no-evidence"),
        scale,
    )
}

/// C19 is served by two engines: the strict packing layer of the line-buffer model on sequential
/// histories (E2) and a per-datagram necessity rule on buffered socket sinks shared by 1..4
/// simulated emitter threads (E5).
fn check_c19(tier: Tier, seed: u64, get: &dyn Fn(&str) -> Option<String>, has: &dyn Fn(&str) -> bool) -> i32 {
    let scale: f64 = get("--scale").and_then(|s| s.parse().ok()).unwrap_or(1.0);
    let scale = get("--runs").and_then(|s| s.parse::<f64>().ok()).map(|r| r / 500_000.0).unwrap_or(scale);
    let jobs = get("--jobs").and_then(|s| s.parse().ok()).unwrap_or_else(|| std::thread::available_parallelism().map(|n| n.get()).unwrap_or(4));
    check_multi(
        "C19",
        tier,
        seed,
        jobs,
        &[("linebuf", 500_000, 40_000_000, 25), ("sockets", 150_000, 10_000_000, 0)],
        "linebuf: sequential histories of emit/flush/drop judged by the strict layer of the reference model - which call each write happens in and how many lines it carries (see per_engine.linebuf.rule); sockets: buffered UDP/Unix sinks shared by 1..4 simulated emitter threads, every datagram that leaves during an emit must have been needed to make room for that emit's metric (see per_engine.sockets.rule); distinct non-trivial counts are summed",
        serde_json::json!({}),
        vec!["underlying writes are all-or-nothing (datagram semantics); sockets are stubs".to_string(), "sampling, not proof".to_string()],
        !has("--no-evidence"),
        scale,
    )
}

/// C18 second opinion (thorough tier): the unhooked SingletonHolder under Miri's seeded scheduler,
/// weak-memory emulation and data-race detector. Independent of the simulator's own tracker.
fn miri_c18(args: &BatchArgs) -> (serde_json::Value, Option<String>, Option<String>) {
    let n: u64 = std::env::var("VERIF_MIRI_SEEDS").ok().and_then(|s| s.parse().ok()).unwrap_or(2048);
    let start = args.seed % 1_000_000;
    let dir = verif_root().join("miri-c18");
    let t0 = std::time::Instant::now();
    let out = std::process::Command::new("cargo")
        .args(["+nightly", "miri", "run", "--offline"])
        .current_dir(&dir)
        .env("MIRIFLAGS", format!("-Zmiri-many-seeds={start}..{} -Zmiri-preemption-rate=0.1", start + n))
        .env("CARGO_NET_OFFLINE", "true")
        .env_remove("RUSTFLAGS")
        .output();
    let wall = t0.elapsed().as_secs_f64();
    match out {
        Err(e) => (serde_json::json!({"tool": "miri", "ran": false}), None, Some(format!("cannot run cargo miri: {e}"))),
        Ok(o) => {
            let text = format!("{}\n{}", String::from_utf8_lossy(&o.stdout), String::from_utf8_lossy(&o.stderr));
            let tried = text.matches("Trying seed").count();
            // a verdict only for what C18 is about: a data race reported by Miri, or an assertion
            // of the scenario itself (src/main.rs) failing. Anything else that goes wrong (other
            // kinds of UB, a panic of cargo / rustc / a build script) is a harness error.
            let ub = text.contains("Undefined Behavior: Data race") || text.contains("Data race detected") || text.contains("panicked at src/main.rs");
            let other_trouble = !ub && (text.contains("Undefined Behavior") || text.contains("panicked at"));
            let j = serde_json::json!({"tool": "cargo +nightly miri run (-Zmiri-many-seeds, -Zmiri-preemption-rate=0.1)", "scenario": "miri-c18/src/main.rs: 2 racing setters + 2 readers on the unhooked SingletonHolder", "seed_range": [start, start + n], "seeds_tried": tried, "wall_s": wall, "exit": o.status.code(), "undefined_behaviour_or_assertion": ub});
            if ub {
                let path = verif_root().join("replays").join(format!("C18-miri-{start}.txt"));
                let _ = std::fs::create_dir_all(path.parent().unwrap());
                let _ = std::fs::write(&path, format!("reproduce: cd /verif/miri-c18 && MIRIFLAGS='-Zmiri-many-seeds={start}..{} -Zmiri-preemption-rate=0.1' cargo +nightly miri run --offline\n\n{}", start + n, text));
                (j, Some(path.to_string_lossy().into_owned()), None)
            } else if other_trouble {
                (j, None, Some(format!("cargo miri reported trouble that is not a data race on the holder nor a failed assertion of the scenario: {}", text.chars().rev().take(600).collect::<String>().chars().rev().collect::<String>())))
            } else if !o.status.success() {
                (j, None, Some(format!("cargo miri failed without reporting UB: {}", text.chars().rev().take(400).collect::<String>().chars().rev().collect::<String>())))
            } else {
                (j, None, None)
            }
        }
    }
}

fn main() {
    cadence_dsim::kernel::install_quiet_panic_hook();
    let args: Vec<String> = std::env::args().skip(1).collect();
    if args.is_empty() {
        usage();
    }
    let get = |flag: &str| -> Option<String> { args.iter().position(|a| a == flag).and_then(|i| args.get(i + 1).cloned()) };
    let has = |flag: &str| args.iter().any(|a| a == flag);
    let code = match args[0].as_str() {
        "check" => {
            let prop = args.get(1).cloned().unwrap_or_else(|| usage());
            let tier = match get("--tier").or_else(|| std::env::var("VERIF_TIER").ok()).as_deref() {
                Some("thorough") => Tier::Thorough,
                _ => Tier::Quick,
            };
            let seed = get("--seed")
                .or_else(|| std::env::var("VERIF_SEED").ok())
                .and_then(|s| s.parse::<u64>().ok())
                .unwrap_or(DEFAULT_SEED);
            if prop == "C20" {
                std::process::exit(check_c20(tier, seed, &get, &has));
            }
            if prop == "C03" {
                std::process::exit(check_c03(tier, seed, &get, &has));
            }
            if prop == "C19" {
                std::process::exit(check_c19(tier, seed, &get, &has));
            }
            if prop == "C06" {
                std::process::exit(check_c06(tier, seed, &get, &has));
            }
            let plan = match plan_for(&prop) {
                Some(p) => p,
                None => {
                    eprintln!("HARNESS-ERROR: no check registered for property {prop}");
                    std::process::exit(2);
                }
            };
            let runs = get("--runs").and_then(|s| s.parse().ok()).unwrap_or(if tier == Tier::Quick { plan.quick_runs } else { plan.thorough_runs });
            let jobs = get("--jobs").and_then(|s| s.parse().ok()).unwrap_or_else(|| std::thread::available_parallelism().map(|n| n.get()).unwrap_or(4));
            let ba = BatchArgs {
                prop: prop.clone(),
                tier,
                seed,
                runs,
                jobs,
                sweep_every: plan.sweep_every,
                level_note: plan.note.to_string(),
                write_evidence: !has("--no-evidence"),
                extra: if prop == "C18" && tier == Tier::Thorough && !has("--no-miri") { Some(miri_c18) } else { None },
                max_wall_s: get("--max-wall").and_then(|s| s.parse().ok()).unwrap_or(if tier == Tier::Quick { 120 } else { 3300 }),
            };
            match plan.engine {
                "linebuf" => run_batch::<e2::E2>(&ba),
                "sinkfault" => run_batch::<e1::E1>(&ba),
                "queue" => run_batch::<e3::E3>(&ba),
                "sockets" => run_batch::<e5::E5>(&ba),
                "holder" => run_batch::<e6::E6>(&ba),
                "macroproc" => run_batch::<e7::E7>(&ba),
                _ => 2,
            }
        }
        "replay" => {
            let file = args.get(1).cloned().unwrap_or_else(|| usage());
            let s = match std::fs::read_to_string(&file) {
                Ok(s) => s,
                Err(e) => {
                    eprintln!("HARNESS-ERROR: cannot read {file}: {e}");
                    std::process::exit(2);
                }
            };
            let rf: ReplayFile = match serde_json::from_str(&s) {
                Ok(r) => r,
                Err(e) => {
                    eprintln!("HARNESS-ERROR: cannot parse {file}: {e}");
                    std::process::exit(2);
                }
            };
            let quiet = has("--quiet");
            match rf.engine.as_str() {
                "linebuf" => replay::<e2::E2>(&rf, quiet),
                "sinkfault" => replay::<e1::E1>(&rf, quiet),
                "queue" => replay::<e3::E3>(&rf, quiet),
                "sockets" => replay::<e5::E5>(&rf, quiet),
                "holder" => replay::<e6::E6>(&rf, quiet),
                "macroproc" => replay::<e7::E7>(&rf, quiet),
                "sharedclient" => replay::<e8::E8>(&rf, quiet),
                other => {
                    eprintln!("HARNESS-ERROR: unknown engine {other}");
                    2
                }
            }
        }
        "macro-child" => {
            let case: e7::McCase = match args.get(1).and_then(|a| serde_json::from_str(a).ok()) {
                Some(c) => c,
                None => {
                    eprintln!("HARNESS-ERROR: macro-child needs a case as JSON");
                    std::process::exit(2);
                }
            };
            let rep = cadence_dsim::kernel::in_clean_room(|| e7::child_run(&case));
            println!("CHILD-REPORT {}", serde_json::to_string(&rep).unwrap());
            0
        }
        "selftest" => {
            let seeds = get("--seeds").and_then(|s| s.parse().ok()).unwrap_or(500);
            let mut bad = 0;
            for (name, r) in [
                ("linebuf/C07", selftest::<e2::E2>("C07", seeds, 16, DEFAULT_SEED)),
                ("queue/C08", selftest::<e3::E3>("C08", seeds, 16, DEFAULT_SEED)),
                ("queue/C11", selftest::<e3::E3>("C11", seeds, 16, DEFAULT_SEED)),
                ("queue/C09", selftest::<e3::E3>("C09", seeds, 16, DEFAULT_SEED)),
                ("sockets/C12", selftest::<e5::E5>("C12", seeds, 16, DEFAULT_SEED)),
                ("sockets/C14", selftest::<e5::E5>("C14", seeds, 16, DEFAULT_SEED)),
                ("sockets/C19", selftest::<e5::E5>("C19", seeds, 16, DEFAULT_SEED)),
                ("queue/C10", selftest::<e3::E3>("C10", seeds, 16, DEFAULT_SEED)),
                ("holder/C18", selftest::<e6::E6>("C18", seeds, 16, DEFAULT_SEED)),
                ("sinkfault/C03", selftest::<e1::E1>("C03", seeds, 16, DEFAULT_SEED)),
                ("sharedclient/C03", selftest::<e8::E8>("C03", seeds, 16, DEFAULT_SEED)),
                ("macroproc/C17", selftest::<e7::E7>("C17", seeds.min(200), 16, DEFAULT_SEED)),
            ] {
                match r {
                    Ok(n) => println!("selftest {name}: {n} seeds x 3 executions identical (2 worker counts on pooled threads + clean room)"),
                    Err(e) => {
                        println!("selftest {name}: NONDETERMINISM {e}");
                        bad += 1;
                    }
                }
            }
            if bad > 0 {
                2
            } else {
                0
            }
        }
        _ => usage(),
    };
    std::process::exit(code);
}
