//! E1 `sinkfault` — C03: a real `StatsdClient` over a scripted sink whose i-th `emit` answers from
//! a fault plan (Ok(n) or Err of any io::ErrorKind). Sequences of calls over all 22
//! (kind × value type) entry points + incr/decr, in plain / tagged try_send / tagged quiet form,
//! with valid and invalid (overflowing Duration) values. Single task.

use crate::common::*;
use crate::linemodel::ErrId;
use cadence::prelude::*;
use cadence::{Metric, MetricBuilder, MetricError, MetricSink, StatsdClient};
use cadence_dsim::rng::{Fnv, Rng};
use serde::{Deserialize, Serialize};
use std::io;
use std::panic::{catch_unwind, AssertUnwindSafe};
use std::sync::{Arc, Mutex};
use std::time::Duration;

pub const N_ENTRIES: u8 = 25;

#[derive(Clone, Debug, Serialize, Deserialize)]
pub enum SinkAns {
    OkLen,
    OkZero,
    OkArbitrary(usize),
    Err(String),
}

/// How a Duration (or list of them) is chosen relative to the overflow boundary.
#[derive(Clone, Debug, Serialize, Deserialize, PartialEq)]
pub enum DurSpec {
    Small(u64),
    /// exactly the largest value that still fits (u64::MAX ms resp. ns)
    MaxFitting,
    /// one unit over the boundary
    JustOver,
    DurationMax,
    /// sub-unit remainder just under the boundary (fits)
    MaxFittingPlusSubUnit,
}

#[derive(Clone, Debug, Serialize, Deserialize)]
pub struct SfCall {
    pub entry: u8,
    /// 0 plain, 1 tagged + try_send, 2 tagged + quiet send
    pub form: u8,
    pub num: u64,
    pub dur: DurSpec,
    /// packed lists: length and, for Durations, the index that gets `dur` (others small)
    pub list_len: usize,
    pub list_bad_at: usize,
    pub tags: Vec<(Option<String>, String)>,
    pub rate: Option<u32>,
    pub timestamp: Option<u64>,
    pub container: Option<String>,
}

#[derive(Clone, Debug, Serialize, Deserialize)]
pub struct SfCase {
    pub prefix: String,
    pub default_tags: Vec<(Option<String>, String)>,
    pub default_container: Option<String>,
    pub handler: bool,
    pub calls: Vec<SfCall>,
    pub plan: Vec<SinkAns>,
    /// the error handler itself reports the failure with a quiet send on a second, healthy client
    /// (a "count what we dropped" handler): the quiet form must be usable while another quiet send
    /// is in flight on the same thread
    #[serde(default)]
    pub reentrant_handler: bool,
    /// the error handler reports with a quiet send on the SAME client (whose sink may refuse that
    /// one too: the nested failure must reach the handler as well, once)
    #[serde(default)]
    pub nested_same_client: bool,
}

pub struct E1;

struct Logs {
    emits: Vec<(String, bool)>,
    handler: Vec<(String, Option<ErrId>, String)>,
}

struct ScriptedSink {
    logs: Arc<Mutex<Logs>>,
    plan: Vec<SinkAns>,
}

impl MetricSink for ScriptedSink {
    fn emit(&self, metric: &str) -> io::Result<usize> {
        let mut l = self.logs.lock().unwrap();
        let i = l.emits.len();
        let ans = self.plan.get(i).cloned().unwrap_or(SinkAns::OkLen);
        match ans {
            SinkAns::OkLen => {
                l.emits.push((metric.to_string(), true));
                Ok(metric.len())
            }
            SinkAns::OkZero => {
                l.emits.push((metric.to_string(), true));
                Ok(0)
            }
            SinkAns::OkArbitrary(n) => {
                l.emits.push((metric.to_string(), true));
                Ok(n)
            }
            SinkAns::Err(k) => {
                l.emits.push((metric.to_string(), false));
                Err(io::Error::new(kind_by_name(&k), format!("fault#{i}")))
            }
        }
    }
}

pub(crate) fn err_parts(e: &MetricError) -> (String, Option<ErrId>, String) {
    use std::error::Error;
    let src = e.source().and_then(|s| s.downcast_ref::<io::Error>()).map(ErrId::of);
    (format!("{:?}", e.kind()), src, e.to_string())
}

#[derive(Clone, Debug)]
pub(crate) enum CallOut {
    Ok(String),
    Err(String, Option<ErrId>, String),
    Quiet,
    Panicked(String),
}

fn dur_of(spec: &DurSpec, nanos_unit: bool) -> Duration {
    // boundary: as_millis() > u64::MAX (timers) or as_nanos() > u64::MAX (histograms)
    match spec {
        DurSpec::Small(n) => {
            if nanos_unit {
                Duration::from_nanos(*n % 10_000_000_000)
            } else {
                Duration::from_micros(*n % 10_000_000_000)
            }
        }
        DurSpec::MaxFitting => {
            if nanos_unit {
                Duration::from_nanos(u64::MAX)
            } else {
                Duration::new(u64::MAX / 1000, ((u64::MAX % 1000) as u32) * 1_000_000)
            }
        }
        DurSpec::MaxFittingPlusSubUnit => {
            if nanos_unit {
                Duration::from_nanos(u64::MAX)
            } else {
                Duration::new(u64::MAX / 1000, ((u64::MAX % 1000) as u32) * 1_000_000 + 999_999)
            }
        }
        DurSpec::JustOver => {
            if nanos_unit {
                Duration::from_nanos(u64::MAX) + Duration::from_nanos(1)
            } else {
                Duration::new(u64::MAX / 1000, ((u64::MAX % 1000) as u32) * 1_000_000) + Duration::from_millis(1)
            }
        }
        DurSpec::DurationMax => Duration::MAX,
    }
}

fn dur_valid(d: &Duration, nanos_unit: bool) -> bool {
    // the harness's own arithmetic in u128
    let secs = d.as_secs() as u128;
    let sub = d.subsec_nanos() as u128;
    if nanos_unit {
        secs * 1_000_000_000 + sub <= u64::MAX as u128
    } else {
        secs * 1000 + sub / 1_000_000 <= u64::MAX as u128
    }
}

fn dur_list(c: &SfCall, nanos_unit: bool) -> Vec<Duration> {
    (0..c.list_len)
        .map(|i| if i == c.list_bad_at % c.list_len.max(1) { dur_of(&c.dur, nanos_unit) } else { dur_of(&DurSpec::Small(c.num.wrapping_add(i as u64)), nanos_unit) })
        .collect()
}

fn f64_of(n: u64) -> f64 {
    match n % 9 {
        0 => 0.0,
        1 => -0.0,
        2 => f64::NAN,
        3 => f64::INFINITY,
        4 => f64::NEG_INFINITY,
        5 => f64::MIN_POSITIVE,
        6 => 1e300,
        7 => (n as f64) / 7.0,
        _ => -((n % 100_000) as f64) * 0.001,
    }
}

/// Is the value of this call valid (accepted by the API)?
pub fn call_valid(c: &SfCall) -> bool {
    match c.entry {
        6 => dur_valid(&dur_of(&c.dur, false), false),
        8 => dur_list(c, false).iter().all(|d| dur_valid(d, false)),
        14 => dur_valid(&dur_of(&c.dur, true), true),
        17 => dur_list(c, true).iter().all(|d| dur_valid(d, true)),
        _ => true,
    }
}

fn finish<T>(b: MetricBuilder<'_, '_, T>, c: &SfCall) -> CallOut
where
    T: Metric + From<String>,
{
    let mut b = b;
    for (k, v) in &c.tags {
        b = match k {
            Some(k) => b.with_tag(k, v),
            None => b.with_tag_value(v),
        };
    }
    if let Some(r) = c.rate {
        b = b.with_sampling_rate((r % 1001) as f64 / 1000.0);
    }
    if let Some(t) = c.timestamp {
        b = b.with_timestamp(t);
    }
    if let Some(cid) = &c.container {
        b = b.with_container_id(cid);
    }
    if c.form == 1 {
        match b.try_send() {
            Ok(m) => CallOut::Ok(m.as_metric_str().to_string()),
            Err(e) => {
                let (k, s, d) = err_parts(&e);
                CallOut::Err(k, s, d)
            }
        }
    } else {
        b.send();
        CallOut::Quiet
    }
}

fn plain<T: Metric>(r: Result<T, MetricError>) -> CallOut {
    match r {
        Ok(m) => CallOut::Ok(m.as_metric_str().to_string()),
        Err(e) => {
            let (k, s, d) = err_parts(&e);
            CallOut::Err(k, s, d)
        }
    }
}

/// One API call. The entry table enumerates the `MetricClient` supertrait list.
pub(crate) fn do_call(client: &StatsdClient, key: &str, c: &SfCall) -> CallOut {
    macro_rules! entry {
        ($plain:ident, $tagged:ident, $v:expr) => {{
            if c.form == 0 {
                plain(client.$plain(key, $v))
            } else {
                finish(client.$tagged(key, $v), c)
            }
        }};
    }
    let n = c.num;
    let u64s = || -> Vec<u64> { (0..c.list_len).map(|i| n.wrapping_mul(i as u64 + 1)).collect() };
    let f64s = || -> Vec<f64> { (0..c.list_len).map(|i| f64_of(n.wrapping_add(i as u64))).collect() };
    match c.entry {
        0 => entry!(count, count_with_tags, n as i64),
        1 => entry!(count, count_with_tags, n as i32),
        2 => entry!(count, count_with_tags, n),
        3 => entry!(count, count_with_tags, n as u32),
        4 => {
            if c.form == 0 {
                plain(client.incr(key))
            } else {
                finish(client.incr_with_tags(key), c)
            }
        }
        5 => entry!(time, time_with_tags, n),
        6 => entry!(time, time_with_tags, dur_of(&c.dur, false)),
        7 => entry!(time, time_with_tags, u64s()),
        8 => entry!(time, time_with_tags, dur_list(c, false)),
        9 => entry!(gauge, gauge_with_tags, n),
        10 => entry!(gauge, gauge_with_tags, f64_of(n)),
        11 => entry!(meter, meter_with_tags, n),
        12 => entry!(histogram, histogram_with_tags, n),
        13 => entry!(histogram, histogram_with_tags, f64_of(n)),
        14 => entry!(histogram, histogram_with_tags, dur_of(&c.dur, true)),
        15 => entry!(histogram, histogram_with_tags, u64s()),
        16 => entry!(histogram, histogram_with_tags, f64s()),
        17 => entry!(histogram, histogram_with_tags, dur_list(c, true)),
        18 => entry!(distribution, distribution_with_tags, n),
        19 => entry!(distribution, distribution_with_tags, f64_of(n)),
        20 => entry!(distribution, distribution_with_tags, u64s()),
        21 => entry!(distribution, distribution_with_tags, f64s()),
        22 => entry!(set, set_with_tags, n as i64),
        23 => {
            if c.form == 0 {
                plain(client.decr(key))
            } else {
                finish(client.decr_with_tags(key), c)
            }
        }
        _ => entry!(count, count_with_tags, i64::MIN),
    }
}

/// Compile-time completeness: every supertrait of `MetricClient` is reachable from the table.
#[allow(dead_code)]
fn _assert_entry_points_cover_metric_client<C: MetricClient>(_c: &C) {}

pub(crate) fn hostile_string(rng: &mut Rng, max: usize) -> String {
    let alphabet = ["a", "b", ".", "_", "é", "√", ":", "|", "#", ",", "@", "\n", " ", "0", ""];
    let n = rng.usize_below(max + 1);
    (0..n).map(|_| *rng.pick(&alphabet)).collect()
}

pub fn gen_call(prog: &mut Rng) -> SfCall {
    let entry = prog.below(N_ENTRIES as u64) as u8;
    let dur = match prog.weighted(&[40, 15, 20, 10, 15]) {
        0 => DurSpec::Small(prog.next_u64()),
        1 => DurSpec::MaxFitting,
        2 => DurSpec::JustOver,
        3 => DurSpec::DurationMax,
        _ => DurSpec::MaxFittingPlusSubUnit,
    };
    let num = match prog.below(6) {
        0 => 0,
        1 => u64::MAX,
        2 => i64::MAX as u64 + 1,
        3 => 1,
        _ => prog.next_u64(),
    };
    let list_len = if prog.chance(1, 50) { 3000 } else { prog.usize_below(5) };
    let mut tags = Vec::new();
    for _ in 0..prog.usize_below(4) {
        tags.push((if prog.chance(2, 3) { Some(hostile_string(prog, 5)) } else { None }, hostile_string(prog, 5)));
    }
    SfCall {
        entry,
        form: prog.below(3) as u8,
        num,
        dur,
        list_len,
        list_bad_at: prog.usize_below(8),
        tags,
        rate: if prog.chance(1, 4) { Some(prog.below(2000) as u32) } else { None },
        timestamp: if prog.chance(1, 5) { Some(prog.next_u64()) } else { None },
        container: if prog.chance(1, 6) { Some(hostile_string(prog, 6)) } else { None },
    }
}

impl Engine for E1 {
    type Case = SfCase;
    const NAME: &'static str = "sinkfault";
    const ID: u64 = 1;

    fn real_vs_stub() -> serde_json::Value {
        serde_json::json!({
            "real": ["StatsdClient, StatsdClientBuilder, MetricBuilder (try_send / send), all 22 (kind x value type) trait implementations + incr/decr, MetricError"],
            "stub": ["the client's sink: the i-th emit answers from the fault plan with Ok(n) (n = len, 0 or arbitrary) or Err(any io::ErrorKind)"],
            "pass_through_shims": []
        })
    }

    fn nontrivial_rule() -> &'static str {
        "one case = (client configuration, sequence of 1..24 (thorough: 1..40) calls each choosing entry point, call form, value incl. Duration overflow boundary, tags/rate/timestamp/container, and the sink's answer per emit); distinct = distinct hash of the serialised case; non-trivial = at least 2 calls and, when the plan contains refusals, at least one refusal actually reached"
    }

    fn is_fault_case(c: &SfCase) -> bool {
        c.plan.iter().any(|a| matches!(a, SinkAns::Err(_)))
    }

    fn required_probes(_focus: &str) -> &'static [&'static str] {
        &["invalid_value_rejected", "sink_refused_try_send", "sink_refused_quiet", "handler_called", "ok_after_error", "all_entry_points", "boundary_value_accepted", "invalid_in_packed_list", "reentrant_handler_ran", "nested_same_client_ran", "nested_failure_reported"]
    }

    fn generate(rng: &mut Rng, _focus: &str, tier: Tier) -> SfCase {
        let mut cfg = rng.split(1);
        let mut prog = rng.split(2);
        let mut flt = rng.split(3);
        let prefix = match cfg.below(4) {
            0 => String::new(),
            1 => "app".to_string(),
            2 => "my.app..".to_string(),
            _ => hostile_string(&mut cfg, 6),
        };
        let mut default_tags = Vec::new();
        for _ in 0..cfg.usize_below(3) {
            default_tags.push((if cfg.chance(1, 2) { Some(hostile_string(&mut cfg, 4)) } else { None }, hostile_string(&mut cfg, 4)));
        }
        let default_container = if cfg.chance(1, 4) { Some("c0ntainer".to_string()) } else { None };
        let handler = cfg.chance(3, 4);
        let reentrant_handler = handler && cfg.chance(1, 3);
        let nested_same_client = handler && cfg.chance(1, 4);
        let n = 1 + prog.usize_below(if tier == Tier::Thorough { 40 } else { 24 });
        let mut calls = Vec::new();
        for _ in 0..n {
            calls.push(gen_call(&mut prog));
        }
        let rate = *flt.pick(&[0u64, 10, 30, 60, 100]);
        let plan = (0..2 * n + 2)
            .map(|_| {
                if flt.chance(rate, 100) {
                    SinkAns::Err(IO_KINDS[flt.usize_below(IO_KINDS.len())].0.to_string())
                } else {
                    match flt.below(4) {
                        0 => SinkAns::OkZero,
                        1 => SinkAns::OkArbitrary(flt.usize_below(100_000)),
                        _ => SinkAns::OkLen,
                    }
                }
            })
            .collect();
        SfCase { prefix, default_tags, default_container, handler, calls, plan, reentrant_handler, nested_same_client }
    }

    fn sweep(case: &SfCase, o: &Outcome) -> Vec<SfCase> {
        // single-fault sweep: every emit position refused once (only from a refusal-free plan)
        if case.plan.iter().any(|a| matches!(a, SinkAns::Err(_))) {
            return Vec::new();
        }
        let n = o.probes.get("emits").copied().unwrap_or(0).min(40) as usize;
        (0..n)
            .map(|i| {
                let mut c = case.clone();
                while c.plan.len() <= i {
                    c.plan.push(SinkAns::OkLen);
                }
                c.plan[i] = SinkAns::Err(IO_KINDS[i % IO_KINDS.len()].0.to_string());
                c
            })
            .collect()
    }

    fn execute(case: &SfCase, want_trace: bool) -> Outcome {
        let mut out = Outcome::default();
        out.strategy = "single_task";
        let r = catch_unwind(AssertUnwindSafe(|| run(case, &mut out, want_trace)));
        if let Err(p) = r {
            out.harness_error = Some(format!("harness panicked: {}", cadence_dsim::kernel::payload_to_string(&*p)));
        }
        out
    }

    fn shrink(case: &SfCase) -> Vec<SfCase> {
        let mut v = Vec::new();
        for i in 0..case.calls.len() {
            let mut c = case.clone();
            c.calls.remove(i);
            v.push(c);
        }
        if !case.prefix.is_empty() {
            let mut c = case.clone();
            c.prefix.clear();
            v.push(c);
        }
        if case.reentrant_handler {
            let mut c = case.clone();
            c.reentrant_handler = false;
            v.push(c);
        }
        if case.nested_same_client {
            let mut c = case.clone();
            c.nested_same_client = false;
            v.push(c);
        }
        if !case.default_tags.is_empty() {
            let mut c = case.clone();
            c.default_tags.clear();
            v.push(c);
        }
        for i in 0..case.plan.len() {
            if matches!(case.plan[i], SinkAns::Err(_) | SinkAns::OkZero | SinkAns::OkArbitrary(_)) {
                let mut c = case.clone();
                c.plan[i] = SinkAns::OkLen;
                v.push(c);
            }
        }
        for i in 0..case.calls.len() {
            let cl = &case.calls[i];
            if !cl.tags.is_empty() || cl.rate.is_some() || cl.timestamp.is_some() || cl.container.is_some() {
                let mut c = case.clone();
                c.calls[i].tags.clear();
                c.calls[i].rate = None;
                c.calls[i].timestamp = None;
                c.calls[i].container = None;
                v.push(c);
            }
            if cl.list_len > 1 {
                let mut c = case.clone();
                c.calls[i].list_len = 1;
                v.push(c);
            }
        }
        v
    }
}

fn run(case: &SfCase, out: &mut Outcome, want_trace: bool) {
    let logs = Arc::new(Mutex::new(Logs { emits: Vec::new(), handler: Vec::new() }));
    let sink = ScriptedSink { logs: logs.clone(), plan: case.plan.clone() };
    let mut b = StatsdClient::builder(&case.prefix, sink);
    for (k, v) in &case.default_tags {
        b = match k {
            Some(k) => b.with_tag(k, v),
            None => b.with_tag_value(v),
        };
    }
    if let Some(c) = &case.default_container {
        b = b.with_container_id(c);
    }
    let self_slot: Arc<Mutex<Option<Arc<StatsdClient>>>> = Arc::new(Mutex::new(None));
    // the client's handler holds the slot and the slot holds the client: break the cycle on every
    // way out of this function, or each run leaks its client, sink, plan and logs
    struct ClearSlot(Arc<Mutex<Option<Arc<StatsdClient>>>>);
    impl Drop for ClearSlot {
        fn drop(&mut self) {
            if let Ok(mut g) = self.0.lock() {
                *g = None;
            }
        }
    }
    let _clear_slot = ClearSlot(self_slot.clone());
    let depth = Arc::new(std::sync::atomic::AtomicU32::new(0));
    if case.handler {
        let l2 = logs.clone();
        let slot2 = self_slot.clone();
        let depth2 = depth.clone();
        let nested = case.nested_same_client;
        let fallback: Option<Arc<StatsdClient>> = if case.reentrant_handler { Some(Arc::new(StatsdClient::from_sink("fallback", cadence::NopMetricSink))) } else { None };
        b = b.with_error_handler(move |e: MetricError| {
            let p = err_parts(&e);
            l2.lock().unwrap().handler.push(p);
            if let Some(f) = &fallback {
                f.count_with_tags("metrics.dropped", 1).with_tag("from", "handler").send();
                f.gauge_with_tags("metrics.last_error", 1u64).send();
            }
            if nested && depth2.load(std::sync::atomic::Ordering::SeqCst) == 0 {
                depth2.store(1, std::sync::atomic::Ordering::SeqCst);
                let me = slot2.lock().unwrap().clone();
                if let Some(me) = me {
                    me.count_with_tags("handler.nested", 7).with_tag("from", "handler").send();
                }
                depth2.store(0, std::sync::atomic::Ordering::SeqCst);
            }
        });
    }
    let client = Arc::new(b.build());
    *self_slot.lock().unwrap() = Some(client.clone());
    let client: &StatsdClient = &client;
    out.api_calls = case.calls.len() as u64;
    let mut h = Fnv::default();
    let mut entries_seen = std::collections::BTreeSet::new();
    let mut prev_failed = false;
    for (ci, c) in case.calls.iter().enumerate() {
        // mostly short keys; sometimes long ones with multi-byte characters at varying offsets
        let key = if c.num % 11 == 3 {
            let mut k = format!("k{ci}.");
            for i in 0..(40 + (c.num % 200) as usize) {
                k.push(if (i + ci) % 5 == 0 { '√' } else if (i + ci) % 3 == 0 { 'é' } else { 'x' });
            }
            k
        } else {
            format!("k{ci}")
        };
        let (e0, h0) = {
            let l = logs.lock().unwrap();
            (l.emits.len(), l.handler.len())
        };
        depth.store(0, std::sync::atomic::Ordering::SeqCst);
        let res = match catch_unwind(AssertUnwindSafe(|| do_call(client, &key, c))) {
            Ok(r) => r,
            Err(p) => CallOut::Panicked(cadence_dsim::kernel::take_last_panic().unwrap_or_else(|| cadence_dsim::kernel::payload_to_string(&*p))),
        };
        let (new_emits, new_handler) = {
            let l = logs.lock().unwrap();
            (l.emits[e0..].to_vec(), l.handler[h0..].to_vec())
        };
        entries_seen.insert(c.entry);
        let valid = call_valid(c);
        if want_trace {
            out.trace.push(format!("call {ci}: entry={} form={} valid={valid} -> {:?}; emits={:?} handler={:?}", c.entry, c.form, res, new_emits, new_handler));
        }
        h.u64(c.entry as u64);
        h.u64(c.form as u64);
        h.u64(new_emits.len() as u64);
        h.u64(new_handler.len() as u64);
        h.u64(match &res {
            CallOut::Ok(_) => 1,
            CallOut::Err(..) => 2,
            CallOut::Quiet => 3,
            CallOut::Panicked(_) => 4,
        });
        out.state_hashes.push(h.0);
        let what = format!("call #{ci} (entry {}, form {}, {})", c.entry, c.form, if valid { "valid value" } else { "invalid value" });
        if let CallOut::Panicked(p) = &res {
            out.violate(&["C03", "C20"], "client.call-panicked", format!("{what} panicked: {p}"));
            return;
        }
        // (a) one emit iff valid (plus the handler's own report in the nested configuration)
        let will_fail = !valid || matches!(case.plan.get(e0), Some(SinkAns::Err(_)));
        let nested_expected = case.nested_same_client && case.handler && c.form == 2 && will_fail;
        let nested_idx = e0 + if valid { 1 } else { 0 };
        let nested_refused = nested_expected && matches!(case.plan.get(nested_idx), Some(SinkAns::Err(_)));
        let want_emits = if valid { 1 } else { 0 } + if nested_expected { 1 } else { 0 };
        if new_emits.len() != want_emits {
            out.violate(&["C03"], "client.emit-count", format!("{what} handed the sink {} strings, expected {want_emits}", new_emits.len()));
            return;
        }
        let sink_ok = if valid { new_emits.first().map(|e| e.1) } else { None };
        let emit_idx = e0;
        if !valid {
            out.probe("invalid_value_rejected");
            if matches!(c.entry, 8 | 17) && c.list_len > 1 {
                out.probe("invalid_in_packed_list");
            }
        } else if matches!(c.entry, 6 | 8 | 14 | 17) && matches!(c.dur, DurSpec::MaxFitting | DurSpec::MaxFittingPlusSubUnit) {
            out.probe("boundary_value_accepted");
        }
        let failed;
        match (&res, c.form) {
            (CallOut::Ok(text), _) => {
                failed = false;
                // (b)
                if !valid || sink_ok != Some(true) {
                    out.violate(&["C03"], "client.ok-without-accepted-emit", format!("{what} returned Ok({text:?}) but the sink {}", if valid { "refused the metric" } else { "was never given anything" }));
                    return;
                }
                if &new_emits[0].0 != text {
                    out.violate(&["C03"], "client.returned-text-differs-from-emitted", format!("{what} returned {text:?} but the sink was handed {:?}", new_emits[0].0));
                    return;
                }
                if prev_failed {
                    out.probe("ok_after_error");
                }
            }
            (CallOut::Err(kind, src, disp), _) => {
                failed = true;
                if !valid {
                    // (d)
                    if kind != "InvalidInput" {
                        out.violate(&["C03"], "client.invalid-value-error-kind", format!("{what} returned an error of kind {kind} ({disp}), expected InvalidInput"));
                        return;
                    }
                } else {
                    // (c)
                    out.probe("sink_refused_try_send");
                    if sink_ok != Some(false) {
                        out.violate(&["C03"], "client.err-although-sink-accepted", format!("{what} returned Err({kind}: {disp}) although the sink accepted the metric"));
                        return;
                    }
                    let want_kind = match case.plan.get(emit_idx) {
                        Some(SinkAns::Err(k)) => k.clone(),
                        _ => String::new(),
                    };
                    let ok = kind == "IoError" && src.as_ref().map(|s| s.kind == want_kind && s.msg == format!("fault#{emit_idx}")).unwrap_or(false);
                    if !ok {
                        out.violate(&["C03"], "client.sink-error-not-carried", format!("{what}: the sink refused with {want_kind}:fault#{emit_idx} but the call returned kind={kind} source={src:?}"));
                        return;
                    }
                }
                if !new_handler.is_empty() {
                    out.violate(&["C03"], "client.handler-on-non-quiet-form", format!("{what} returned its error and also invoked the error handler"));
                    return;
                }
            }
            (CallOut::Quiet, _) => {
                // (e)
                failed = !valid || sink_ok == Some(false);
                let want = if failed && case.handler { 1 + if nested_refused { 1 } else { 0 } } else { 0 };
                if nested_expected {
                    out.probe("nested_same_client_ran");
                    if nested_refused {
                        out.probe("nested_failure_reported");
                    }
                }
                if new_handler.len() != want {
                    out.violate(&["C03"], "client.handler-count", format!("{what} (quiet send, {}) invoked the error handler {} times, expected {want}", if failed { "failed" } else { "succeeded" }, new_handler.len()));
                    return;
                }
                if failed && valid {
                    out.probe("sink_refused_quiet");
                }
                if want == 2 {
                    // the nested failure carries the error of the nested emit
                    let (kind, src, _) = &new_handler[1];
                    let want_kind = match case.plan.get(nested_idx) {
                        Some(SinkAns::Err(k)) => k.clone(),
                        _ => String::new(),
                    };
                    let ok = kind == "IoError" && src.as_ref().map(|s| s.kind == want_kind && s.msg == format!("fault#{nested_idx}")).unwrap_or(false);
                    if !ok {
                        out.violate(&["C03"], "client.handler-wrong-error", format!("{what}: the quiet send made inside the handler was refused with {want_kind}:fault#{nested_idx} but the handler received kind={kind} source={src:?}"));
                        return;
                    }
                }
                if want >= 1 {
                    out.probe("handler_called");
                    if case.reentrant_handler {
                        out.probe("reentrant_handler_ran");
                    }
                    let (kind, src, disp) = &new_handler[0];
                    if !valid {
                        if kind != "InvalidInput" {
                            out.violate(&["C03"], "client.handler-wrong-error", format!("{what}: handler received kind {kind} ({disp}), expected InvalidInput"));
                            return;
                        }
                    } else {
                        let want_kind = match case.plan.get(emit_idx) {
                            Some(SinkAns::Err(k)) => k.clone(),
                            _ => String::new(),
                        };
                        let ok = kind == "IoError" && src.as_ref().map(|s| s.kind == want_kind && s.msg == format!("fault#{emit_idx}")).unwrap_or(false);
                        if !ok {
                            out.violate(&["C03"], "client.handler-wrong-error", format!("{what}: the sink refused with {want_kind}:fault#{emit_idx} but the handler received kind={kind} source={src:?}"));
                            return;
                        }
                    }
                }
            }
            (CallOut::Panicked(_), _) => unreachable!(),
        }
        if c.form != 2 && !new_handler.is_empty() {
            out.violate(&["C03"], "client.handler-on-non-quiet-form", format!("{what} invoked the error handler although it is not the quiet form"));
            return;
        }
        if failed {
            out.fired(if valid { "sink_refusal" } else { "invalid_value" });
        }
        prev_failed = failed;
    }
    let l = logs.lock().unwrap();
    out.probe_n("emits", l.emits.len() as u64);
    for a in &case.plan {
        if let SinkAns::Err(_) = a {
            out.configured("sink_refusal");
        }
    }
    if entries_seen.len() >= 12 {
        out.probe("all_entry_points");
    }
    out.trace_hash = h.0;
}
