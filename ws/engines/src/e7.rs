//! E7 `macroproc` — C17, claimed narrowly: what makes the macros a simulation target is the
//! process-global, set-once client and the failing sink. One fresh child process per case runs a
//! history {macros while unset, set A, set B (ignored), macros after} and compares every macro
//! invocation with the explicit tagged quiet call on a twin client (same configuration, own
//! scripted sink with the same fault script).

use crate::common::*;
use cadence::prelude::*;
use cadence::{MetricError, MetricSink, StatsdClient};
use cadence_dsim::kernel::{self, KConfig, Kernel};
use cadence_dsim::rng::{Fnv, Rng};
use cadence_dsim::thread as sthread;
use std::collections::BTreeMap;
use serde::{Deserialize, Serialize};
use std::cell::Cell;
use std::io;
use std::panic::{catch_unwind, AssertUnwindSafe};
use std::sync::{Arc, Mutex};
use std::time::Duration;

#[derive(Clone, Debug, Serialize, Deserialize)]
pub struct McInv {
    /// 0..22: (macro, value type) combination
    pub combo: u8,
    pub n_tags: u8,
    pub key: String,
    pub num: u64,
    pub list_len: usize,
    /// Duration flavours: 0 small, 1 largest fitting, 2 overflowing
    pub dur: u8,
    pub tags: Vec<(String, String)>,
    /// the value expression itself sends a metric (through a macro for the macro call, explicitly
    /// for the twin): macros must be usable from within their own argument expressions
    #[serde(default)]
    pub nested_arg: bool,
}

#[derive(Clone, Debug, Serialize, Deserialize)]
pub struct McCase {
    pub prefix: String,
    pub default_tags: Vec<(Option<String>, String)>,
    pub handler: bool,
    /// i-th emit of each sink is refused?
    pub refuse: Vec<bool>,
    /// macro indices invoked while no global client is set (each must panic)
    pub pre_unset: Vec<u8>,
    pub set_global: bool,
    pub second_set: bool,
    pub invocations: Vec<McInv>,
    /// the error handler itself reports through a macro (a common "count dropped metrics" idiom):
    /// a macro must be usable while another macro call is in flight on the same thread
    #[serde(default)]
    pub reentrant_handler: bool,
    /// concurrent phase (after the sequential one): programs of 2..3 simulated caller threads that
    /// use the macros at the same time, with scheduling points inside the global client's sink and
    /// error handler. Refusals are decided per metric text in this phase (schedule-independent).
    #[serde(default)]
    pub concurrent: Vec<Vec<McInv>>,
    #[serde(default)]
    pub conc_sched: Option<SchedSpec>,
    #[serde(default)]
    pub conc_yields: u8,
    /// in the concurrent phase a metric is refused iff hash(text before ':') % conc_refuse_mod == 0 (0 = never)
    #[serde(default)]
    pub conc_refuse_mod: u8,
    /// in the concurrent phase one more thread calls set_global_default again (a documented
    /// no-op once a client is set) while the others use the macros
    #[serde(default)]
    pub conc_late_set: bool,
}

#[derive(Clone, Debug, Serialize, Deserialize, Default)]
pub struct ChildReport {
    pub violations: Vec<(String, String)>,
    pub probes: Vec<String>,
    pub trace: Vec<String>,
    pub emits: usize,
    pub refused: usize,
    pub calls: usize,
    #[serde(default)]
    pub steps: u64,
    #[serde(default)]
    pub schedule: Vec<u32>,
}

pub struct E7;

#[derive(Default)]
struct Logs {
    emits: Vec<(String, bool)>,
    handler: Vec<String>,
    /// concurrent phase: per calling task
    mt_emits: BTreeMap<usize, Vec<(String, bool, u64, u64)>>,
    mt_handler: BTreeMap<usize, Vec<(String, u64, u64)>>,
}

struct Scripted {
    logs: Arc<Mutex<Logs>>,
    refuse: Vec<bool>,
    conc_yields: u8,
    conc_refuse_mod: u8,
}

fn metric_head(metric: &str) -> &str {
    metric.split(':').next().unwrap_or("")
}

impl MetricSink for Scripted {
    fn emit(&self, metric: &str) -> io::Result<usize> {
        if let Some(me) = kernel::current_task() {
            // concurrent phase: the answer depends on the metric only, the call contains scheduling points
            let enter = kernel::steps();
            for _ in 0..self.conc_yields {
                kernel::yield_now();
            }
            let head = metric_head(metric);
            let mut h = Fnv::default();
            h.bytes(head.as_bytes());
            let refuse = self.conc_refuse_mod > 0 && h.0 % self.conc_refuse_mod as u64 == 0;
            kernel::yield_now();
            let exit = kernel::steps();
            self.logs.lock().unwrap().mt_emits.entry(me).or_default().push((metric.to_string(), !refuse, enter, exit));
            return if refuse { Err(io::Error::new(io::ErrorKind::ConnectionRefused, format!("fault#{head}"))) } else { Ok(metric.len()) };
        }
        let mut l = self.logs.lock().unwrap();
        let i = l.emits.len();
        if self.refuse.get(i).copied().unwrap_or(false) {
            l.emits.push((metric.to_string(), false));
            Err(io::Error::new(io::ErrorKind::ConnectionRefused, format!("fault#{i}")))
        } else {
            l.emits.push((metric.to_string(), true));
            Ok(metric.len())
        }
    }
}

thread_local! {
    static HANDLER_DEPTH: Cell<u32> = const { Cell::new(0) };
}

/// How a re-entrant handler reports: through the macro (global client) or explicitly on the twin.
#[derive(Clone)]
enum Reentry {
    None,
    ViaMacro,
    ViaTwin(Arc<Mutex<Option<Arc<StatsdClient>>>>),
}

fn build_client(case: &McCase, logs: &Arc<Mutex<Logs>>) -> StatsdClient {
    build_client_with(case, logs, Reentry::None)
}

fn build_client_with(case: &McCase, logs: &Arc<Mutex<Logs>>, reentry: Reentry) -> StatsdClient {
    let mut b = StatsdClient::builder(&case.prefix, Scripted { logs: logs.clone(), refuse: case.refuse.clone(), conc_yields: case.conc_yields, conc_refuse_mod: case.conc_refuse_mod });
    for (k, v) in &case.default_tags {
        b = match k {
            Some(k) => b.with_tag(k, v),
            None => b.with_tag_value(v),
        };
    }
    if case.handler {
        let l = logs.clone();
        let conc_yields = case.conc_yields;
        b = b.with_error_handler(move |e: MetricError| {
            use std::error::Error;
            let src = e.source().map(|s| s.to_string()).unwrap_or_default();
            if let Some(me) = kernel::current_task() {
                let enter = kernel::steps();
                for _ in 0..conc_yields {
                    kernel::yield_now();
                }
                let exit = kernel::steps();
                l.lock().unwrap().mt_handler.entry(me).or_default().push((format!("{:?}|{}|{}", e.kind(), e, src), enter, exit));
            } else {
                l.lock().unwrap().handler.push(format!("{:?}|{}|{}", e.kind(), e, src));
            }
            // the handler reports through the client up to two levels deep:
            // macro -> handler -> macro -> handler -> macro
            let depth = HANDLER_DEPTH.with(|d| d.get());
            if depth < 2 {
                HANDLER_DEPTH.with(|d| d.set(depth + 1));
                match &reentry {
                    Reentry::None => {}
                    Reentry::ViaMacro => {
                        cadence_macros::statsd_count!("handler.dropped", 1, "via" => "handler");
                    }
                    Reentry::ViaTwin(slot) => {
                        let c = slot.lock().unwrap().clone();
                        if let Some(c) = c {
                            c.count_with_tags("handler.dropped", 1).with_tag("via", "handler").send();
                        }
                    }
                }
                HANDLER_DEPTH.with(|d| d.set(depth));
            }
        });
    }
    b.build()
}

fn dur(flavour: u8, nanos: bool, n: u64) -> Duration {
    match (flavour, nanos) {
        (1, true) => Duration::from_nanos(u64::MAX),
        (1, false) => Duration::new(u64::MAX / 1000, ((u64::MAX % 1000) as u32) * 1_000_000),
        (2, _) => Duration::MAX,
        _ => Duration::from_micros(n % 1_000_000_007),
    }
}

struct Counter2 {
    key: Cell<u32>,
    val: Cell<u32>,
    tag: Cell<u32>,
}

/// Invoke combo `inv.combo` both through the macro (global client) and explicitly on the twin.
fn invoke(inv: &McInv, twin: &StatsdClient, ev: &Counter2) {
    let k = inv.key.as_str();
    let t = &inv.tags;
    let n = inv.num;
    let ll = inv.list_len;
    macro_rules! both {
        ($mac:ident, $meth:ident, $val:expr) => {{
            match inv.n_tags {
                0 => {
                    {
                        cadence_macros::$mac!(
                            {
                                ev.key.set(ev.key.get() + 1);
                                k
                            },
                            {
                                ev.val.set(ev.val.get() + 1);
                                if inv.nested_arg {
                                    cadence_macros::statsd_meter!("nested.arg", 7u64, "from" => "argument");
                                }
                                $val
                            }
                        );
                    }
                    twin.$meth(k, {
                        if inv.nested_arg {
                            twin.meter_with_tags("nested.arg", 7u64).with_tag("from", "argument").send();
                        }
                        $val
                    })
                    .send();
                }
                1 => {
                    {
                        cadence_macros::$mac!(
                            {
                                ev.key.set(ev.key.get() + 1);
                                k
                            },
                            {
                                ev.val.set(ev.val.get() + 1);
                                $val
                            },
                            {
                                ev.tag.set(ev.tag.get() + 1);
                                t[0].0.as_str()
                            } => {
                                ev.tag.set(ev.tag.get() + 1);
                                t[0].1.as_str()
                            }
                        );
                    }
                    twin.$meth(k, $val).with_tag(&t[0].0, &t[0].1).send();
                }
                2 => {
                    {
                        cadence_macros::$mac!(
                            {
                                ev.key.set(ev.key.get() + 1);
                                k
                            },
                            {
                                ev.val.set(ev.val.get() + 1);
                                $val
                            },
                            {
                                ev.tag.set(ev.tag.get() + 1);
                                t[0].0.as_str()
                            } => {
                                ev.tag.set(ev.tag.get() + 1);
                                t[0].1.as_str()
                            },
                            {
                                ev.tag.set(ev.tag.get() + 1);
                                t[1].0.as_str()
                            } => {
                                ev.tag.set(ev.tag.get() + 1);
                                t[1].1.as_str()
                            }
                        );
                    }
                    twin.$meth(k, $val).with_tag(&t[0].0, &t[0].1).with_tag(&t[1].0, &t[1].1).send();
                }
                _ => {
                    {
                        cadence_macros::$mac!(
                            {
                                ev.key.set(ev.key.get() + 1);
                                k
                            },
                            {
                                ev.val.set(ev.val.get() + 1);
                                $val
                            },
                            {
                                ev.tag.set(ev.tag.get() + 1);
                                t[0].0.as_str()
                            } => {
                                ev.tag.set(ev.tag.get() + 1);
                                t[0].1.as_str()
                            },
                            {
                                ev.tag.set(ev.tag.get() + 1);
                                t[1].0.as_str()
                            } => {
                                ev.tag.set(ev.tag.get() + 1);
                                t[1].1.as_str()
                            },
                            {
                                ev.tag.set(ev.tag.get() + 1);
                                t[2].0.as_str()
                            } => {
                                ev.tag.set(ev.tag.get() + 1);
                                t[2].1.as_str()
                            }
                        );
                    }
                    twin.$meth(k, $val).with_tag(&t[0].0, &t[0].1).with_tag(&t[1].0, &t[1].1).with_tag(&t[2].0, &t[2].1).send();
                }
            }
        }};
    }
    let u64s = || -> Vec<u64> { (0..ll).map(|i| n.wrapping_mul(i as u64 + 3)).collect() };
    let f64s = || -> Vec<f64> { (0..ll).map(|i| (n % 1000) as f64 * 0.5 + i as f64).collect() };
    let durs = |nanos: bool| -> Vec<Duration> { (0..ll).map(|i| if i == 0 { dur(inv.dur, nanos, n) } else { dur(0, nanos, n.wrapping_add(i as u64)) }).collect() };
    match inv.combo {
        0 => both!(statsd_count, count_with_tags, n as i64),
        1 => both!(statsd_count, count_with_tags, n as i32),
        2 => both!(statsd_count, count_with_tags, n),
        3 => both!(statsd_count, count_with_tags, n as u32),
        4 => both!(statsd_time, time_with_tags, n),
        5 => both!(statsd_time, time_with_tags, dur(inv.dur, false, n)),
        6 => both!(statsd_time, time_with_tags, u64s()),
        7 => both!(statsd_time, time_with_tags, durs(false)),
        8 => both!(statsd_gauge, gauge_with_tags, n),
        9 => both!(statsd_gauge, gauge_with_tags, (n % 100_000) as f64 / 8.0),
        10 => both!(statsd_meter, meter_with_tags, n),
        11 => both!(statsd_histogram, histogram_with_tags, n),
        12 => both!(statsd_histogram, histogram_with_tags, (n % 7777) as f64 * 1.25),
        13 => both!(statsd_histogram, histogram_with_tags, dur(inv.dur, true, n)),
        14 => both!(statsd_histogram, histogram_with_tags, u64s()),
        15 => both!(statsd_histogram, histogram_with_tags, f64s()),
        16 => both!(statsd_histogram, histogram_with_tags, durs(true)),
        17 => both!(statsd_distribution, distribution_with_tags, n),
        18 => both!(statsd_distribution, distribution_with_tags, (n % 99) as f64),
        19 => both!(statsd_distribution, distribution_with_tags, u64s()),
        20 => both!(statsd_distribution, distribution_with_tags, f64s()),
        _ => both!(statsd_set, set_with_tags, n as i64),
    }
}

fn invoke_unset(m: u8) {
    match m % 7 {
        0 => {
            cadence_macros::statsd_count!("k", 1);
        }
        1 => {
            cadence_macros::statsd_time!("k", 1u64, "a" => "b");
        }
        2 => {
            cadence_macros::statsd_gauge!("k", 1u64);
        }
        3 => {
            cadence_macros::statsd_meter!("k", 1u64);
        }
        4 => {
            cadence_macros::statsd_histogram!("k", 1u64);
        }
        5 => {
            cadence_macros::statsd_distribution!("k", 1u64, "a" => "b", "c" => "d");
        }
        _ => {
            cadence_macros::statsd_set!("k", 1);
        }
    }
}

/// The whole history, in this (fresh) process.
pub fn child_run(case: &McCase) -> ChildReport {
    let mut rep = ChildReport::default();
    let mut viol = |clause: &str, detail: String, rep: &mut ChildReport| {
        if rep.violations.len() < 8 {
            rep.violations.push((clause.to_string(), detail));
        }
    };
    // (1) while unset every macro must panic and nothing exists to receive anything
    if cadence_macros::is_global_default_set() {
        rep.violations.push(("macro.harness".into(), "global default already set in a fresh process".into()));
        return rep;
    }
    for m in &case.pre_unset {
        let r = catch_unwind(AssertUnwindSafe(|| invoke_unset(*m)));
        rep.calls += 1;
        if r.is_ok() {
            viol("macro.no-panic-while-unset", format!("macro #{} did not panic although no global client is set", m % 7), &mut rep);
        } else {
            rep.probes.push("panicked_while_unset".into());
        }
        let _ = cadence_dsim::kernel::take_last_panic();
    }
    if !case.set_global {
        return rep;
    }
    let logs_a = Arc::new(Mutex::new(Logs::default()));
    let logs_b = Arc::new(Mutex::new(Logs::default()));
    let logs_t = Arc::new(Mutex::new(Logs::default()));
    let reentry_a = if case.reentrant_handler { Reentry::ViaMacro } else { Reentry::None };
    cadence_macros::set_global_default(build_client_with(case, &logs_a, reentry_a));
    if case.second_set {
        let mut other = case.clone();
        other.prefix = "second".into();
        cadence_macros::set_global_default(build_client(&other, &logs_b));
        rep.probes.push("second_set".into());
    }
    let twin_slot: Arc<Mutex<Option<Arc<StatsdClient>>>> = Arc::new(Mutex::new(None));
    let reentry_t = if case.reentrant_handler { Reentry::ViaTwin(twin_slot.clone()) } else { Reentry::None };
    let twin_arc = Arc::new(build_client_with(case, &logs_t, reentry_t));
    *twin_slot.lock().unwrap() = Some(twin_arc.clone());
    let twin: &StatsdClient = &twin_arc;
    for (i, inv) in case.invocations.iter().enumerate() {
        let ev = Counter2 { key: Cell::new(0), val: Cell::new(0), tag: Cell::new(0) };
        let (a0, ah0, t0, th0) = {
            let a = logs_a.lock().unwrap();
            let t = logs_t.lock().unwrap();
            (a.emits.len(), a.handler.len(), t.emits.len(), t.handler.len())
        };
        let r = catch_unwind(AssertUnwindSafe(|| invoke(inv, twin, &ev)));
        rep.calls += 1;
        let a = logs_a.lock().unwrap();
        let t = logs_t.lock().unwrap();
        let what = format!("invocation #{i} (combo {}, {} tags)", inv.combo, inv.n_tags);
        rep.trace.push(format!("{what}: macro emits {:?} handler {:?}; explicit emits {:?} handler {:?}", &a.emits[a0..], &a.handler[ah0..], &t.emits[t0.min(t.emits.len())..], &t.handler[th0.min(t.handler.len())..]));
        if let Err(p) = r {
            let msg = cadence_dsim::kernel::take_last_panic().unwrap_or_else(|| cadence_dsim::kernel::payload_to_string(&*p));
            viol("macro.panicked-while-set", format!("{what} panicked although a global client is set: {msg}"), &mut rep);
            return rep;
        }
        let ae = &a.emits[a0..];
        let te = &t.emits[t0..];
        if ae.len() > 1 && !inv.nested_arg && !case.reentrant_handler {
            viol("macro.more-than-one-emit", format!("{what} handed the sink {} strings", ae.len()), &mut rep);
        }
        if inv.nested_arg && inv.n_tags == 0 {
            rep.probes.push("nested_macro_in_argument".into());
        }
        if case.reentrant_handler && a.handler.len() > ah0 {
            rep.probes.push("reentrant_handler_ran".into());
        }
        if ae != te {
            viol("macro.differs-from-explicit-call", format!("{what}: macro sent {ae:?}, the explicit tagged quiet call sent {te:?}"), &mut rep);
        }
        if a.handler[ah0..] != t.handler[th0..] {
            viol("macro.handler-differs", format!("{what}: handler of the global client saw {:?}, the twin's {:?}", &a.handler[ah0..], &t.handler[th0..]), &mut rep);
        }
        let failed = ae.first().map(|e| !e.1).unwrap_or(true);
        if failed && ae.is_empty() {
            rep.probes.push("invalid_value_via_macro".into());
        }
        if failed && !ae.is_empty() {
            rep.probes.push("sink_refused_via_macro".into());
            rep.refused += 1;
        }
        // each argument expression evaluated exactly once
        // every argument expression of the macro call is instrumented: key, value, each tag key and value
        let exp_key = 1;
        let exp_val = 1;
        let exp_tag = 2 * inv.n_tags.min(3) as u32;
        if ev.key.get() != exp_key || ev.val.get() != exp_val || ev.tag.get() != exp_tag {
            viol(
                "macro.argument-evaluated-not-once",
                format!("{what}: key expression evaluated {} times, value {} times, instrumented tag expression {} times (expected {exp_key}, {exp_val}, {exp_tag})", ev.key.get(), ev.val.get(), ev.tag.get()),
                &mut rep,
            );
        }
        rep.emits += ae.len();
    }
    if !case.concurrent.is_empty() {
        concurrent_phase(case, &twin_arc, &logs_a, &logs_b, &logs_t, &mut rep);
    }
    if !logs_b.lock().unwrap().mt_emits.is_empty() || !logs_b.lock().unwrap().mt_handler.is_empty() {
        viol("macro.second-set-client-used", "the client of the second (ignored) set_global_default received metrics in the concurrent phase".into(), &mut rep);
    }
    if !logs_b.lock().unwrap().emits.is_empty() || !logs_b.lock().unwrap().handler.is_empty() {
        viol("macro.second-set-client-used", "the client of the second (ignored) set_global_default received metrics".into(), &mut rep);
    }
    rep
}

#[derive(Default)]
struct MtShared {
    violations: Mutex<Vec<(String, String)>>,
    probes: Mutex<Vec<String>>,
    trace: Mutex<Vec<String>>,
    calls: Mutex<usize>,
}

fn mt_call<R>(f: impl FnOnce() -> R) -> Result<R, String> {
    match catch_unwind(AssertUnwindSafe(f)) {
        Ok(r) => Ok(r),
        Err(p) => {
            if kernel::is_abort(&*p) {
                std::panic::resume_unwind(p);
            }
            Err(kernel::take_last_panic().unwrap_or_else(|| kernel::payload_to_string(&*p)))
        }
    }
}

/// One simulated caller thread of the concurrent phase: every macro invocation is compared with
/// the explicit call on the twin *as seen by this thread* (what this thread handed to either sink,
/// what either handler was told on this thread).
fn mt_prog(t: usize, prog: &[McInv], reentrant: bool, twin: &StatsdClient, la: &Mutex<Logs>, lt: &Mutex<Logs>, sh: &MtShared) {
    let me = kernel::current_task().unwrap_or(0);
    for (i, inv) in prog.iter().enumerate() {
        kernel::yield_now();
        let ev = Counter2 { key: Cell::new(0), val: Cell::new(0), tag: Cell::new(0) };
        let lens = |l: &Mutex<Logs>| {
            let l = l.lock().unwrap();
            (l.mt_emits.get(&me).map(|v| v.len()).unwrap_or(0), l.mt_handler.get(&me).map(|v| v.len()).unwrap_or(0))
        };
        let (a0, ah0) = lens(la);
        let (t0, th0) = lens(lt);
        let r = mt_call(|| invoke(inv, twin, &ev));
        *sh.calls.lock().unwrap() += 1;
        let slice = |l: &Mutex<Logs>, e0: usize, h0: usize| {
            let l = l.lock().unwrap();
            let e: Vec<(String, bool)> = l.mt_emits.get(&me).map(|v| v[e0..].iter().map(|x| (x.0.clone(), x.1)).collect()).unwrap_or_default();
            let h: Vec<String> = l.mt_handler.get(&me).map(|v| v[h0..].iter().map(|x| x.0.clone()).collect()).unwrap_or_default();
            (e, h)
        };
        let (ae, ah) = slice(la, a0, ah0);
        let (te, th) = slice(lt, t0, th0);
        let what = format!("concurrent phase, thread {t} invocation #{i} (combo {}, {} tags)", inv.combo, inv.n_tags);
        sh.trace.lock().unwrap().push(format!("{what}: macro emits {ae:?} handler {ah:?}; explicit emits {te:?} handler {th:?}"));
        let mut viol = |c: &str, d: String| {
            let mut v = sh.violations.lock().unwrap();
            if v.len() < 8 {
                v.push((c.to_string(), d));
            }
        };
        if let Err(p) = r {
            viol("macro.panicked-while-set", format!("{what} panicked although a global client is set: {p}"));
            return;
        }
        if ae.len() > 1 && !inv.nested_arg && !reentrant {
            viol("macro.more-than-one-emit", format!("{what} handed the sink {} strings", ae.len()));
        }
        if ae != te {
            viol("macro.differs-from-explicit-call", format!("{what}: macro sent {ae:?}, the explicit tagged quiet call sent {te:?}"));
        }
        if ah != th {
            viol("macro.handler-differs", format!("{what}: handler of the global client saw {ah:?}, the twin's {th:?}"));
        }
        if ae.first().map(|e| !e.1).unwrap_or(false) {
            sh.probes.lock().unwrap().push("concurrent_refusal".into());
        }
        // every argument expression of the macro call is instrumented: key, value, each tag key and value
        let exp_key = 1;
        let exp_val = 1;
        let exp_tag = 2 * inv.n_tags.min(3) as u32;
        if ev.key.get() != exp_key || ev.val.get() != exp_val || ev.tag.get() != exp_tag {
            viol("macro.argument-evaluated-not-once", format!("{what}: key expression evaluated {} times, value {} times, instrumented tag expression {} times (expected {exp_key}, {exp_val}, {exp_tag})", ev.key.get(), ev.val.get(), ev.tag.get()));
        }
    }
}

fn concurrent_phase(case: &McCase, twin: &Arc<StatsdClient>, logs_a: &Arc<Mutex<Logs>>, logs_b: &Arc<Mutex<Logs>>, logs_t: &Arc<Mutex<Logs>>, rep: &mut ChildReport) {
    let sched = case.conc_sched.clone().unwrap_or(SchedSpec { kind: SchedKind::Uniform, seed: 1, depth: 1, explicit: None });
    let kc = KConfig::new(sched.seed, sched.strategy(120));
    let sh = Arc::new(MtShared::default());
    let progs = case.concurrent.clone();
    let reentrant = case.reentrant_handler;
    let (la, lt, tw, sh2) = (logs_a.clone(), logs_t.clone(), twin.clone(), sh.clone());
    let late: Option<McCase> = if case.conc_late_set {
        let mut other = case.clone();
        other.prefix = "late".into();
        Some(other)
    } else {
        None
    };
    let lb = logs_b.clone();
    let r = Kernel::run(kc, move || {
        let mut hs = Vec::new();
        if let Some(other) = late {
            let lb = lb.clone();
            hs.push(sthread::spawn_named("late-setter", move || {
                kernel::yield_now();
                // ignored for ever: a client is already set
                cadence_macros::set_global_default(build_client(&other, &lb));
                kernel::yield_now();
                cadence_macros::set_global_default(build_client(&other, &lb));
            }));
        }
        for (t, p) in progs.iter().enumerate().skip(1) {
            let (la, lt, tw, sh, p) = (la.clone(), lt.clone(), tw.clone(), sh2.clone(), p.clone());
            hs.push(sthread::spawn_named(&format!("user{t}"), move || mt_prog(t, &p, reentrant, &tw, &la, &lt, &sh)));
        }
        if let Some(p0) = progs.first() {
            mt_prog(0, p0, reentrant, &tw, &la, &lt, &sh2);
        }
        kernel::wait_idle();
        drop(hs);
    });
    rep.steps = r.steps;
    rep.schedule = r.schedule.clone();
    if let Some(e) = &r.error {
        rep.violations.push(("macro.harness".into(), format!("concurrent phase: {e}")));
        return;
    }
    for t in &r.tasks {
        if let Some(p) = &t.panicked {
            if t.name == "late-setter" {
                rep.violations.push(("macro.late-set-panicked".into(), format!("concurrent phase: a redundant set_global_default panicked: {p}")));
            } else {
                rep.violations.push(("macro.panicked-while-set".into(), format!("concurrent phase: task {} panicked: {p}", t.id)));
            }
        }
    }
    if r.main.is_none() && rep.violations.is_empty() {
        rep.violations.push(("macro.concurrent-call-never-returned".into(), format!("concurrent phase: the main caller did not finish: {:?}", r.tasks.first().map(|t| (&t.state, &t.label)))));
    }
    rep.calls += *sh.calls.lock().unwrap();
    rep.violations.extend(sh.violations.lock().unwrap().iter().cloned());
    rep.probes.extend(sh.probes.lock().unwrap().iter().cloned());
    rep.trace.extend(sh.trace.lock().unwrap().iter().cloned());
    rep.probes.push("concurrent_phase_ran".into());
    if case.conc_late_set {
        rep.probes.push("late_set_during_macros".into());
    }
    // reach: two callers inside the global client's sink / handler at the same time
    let a = logs_a.lock().unwrap();
    let overlap = |x: (u64, u64), y: (u64, u64)| x.0 < y.1 && y.0 < x.1;
    let tasks: Vec<&usize> = a.mt_emits.keys().collect();
    for (i, t1) in tasks.iter().enumerate() {
        for t2 in tasks.iter().skip(i + 1) {
            if a.mt_emits[*t1].iter().any(|x| a.mt_emits[*t2].iter().any(|y| overlap((x.2, x.3), (y.2, y.3)))) {
                rep.probes.push("two_macro_users_in_sink".into());
            }
        }
    }
    let ht: Vec<&usize> = a.mt_handler.keys().collect();
    for (i, t1) in ht.iter().enumerate() {
        for t2 in ht.iter().skip(i + 1) {
            if a.mt_handler[*t1].iter().any(|x| a.mt_handler[*t2].iter().any(|y| overlap((x.1, x.2), (y.1, y.2)))) {
                rep.probes.push("two_macro_users_in_handler".into());
            }
        }
    }
    rep.emits += a.mt_emits.values().map(|v| v.len()).sum::<usize>();
}

fn hstr(rng: &mut Rng, max: usize) -> String {
    let alphabet = ["a", "b", "x", ".", "_", "é", "0", "-"];
    let n = 1 + rng.usize_below(max);
    (0..n).map(|_| *rng.pick(&alphabet)).collect()
}

fn gen_inv(prog: &mut Rng, default_tags: &[(Option<String>, String)]) -> McInv {
    let n_tags = prog.below(4) as u8;
    McInv {
        combo: prog.below(22) as u8,
        n_tags,
        key: if prog.chance(1, 10) {
            let mut k = hstr(prog, 8);
            for i in 0..(40 + prog.usize_below(200)) {
                k.push(if i % 5 == 0 { '√' } else if i % 3 == 0 { 'é' } else { 'y' });
            }
            k
        } else {
            hstr(prog, 8)
        },
        num: if prog.chance(1, 5) { u64::MAX } else { prog.next_u64() >> prog.below(60) },
        list_len: prog.usize_below(4),
        dur: prog.weighted(&[60, 20, 20]) as u8,
        tags: {
            let mut t: Vec<(String, String)> = (0..3).map(|_| (hstr(prog, 4), hstr(prog, 4))).collect();
            // a fifth of the invocations repeat a key: of a default tag, or of another tag
            if prog.chance(1, 5) {
                let dk: Vec<&String> = default_tags.iter().filter_map(|(k, _)| k.as_ref()).collect();
                if !dk.is_empty() && prog.chance(1, 2) {
                    let i = prog.usize_below(3);
                    t[i].0 = (*prog.pick(&dk)).clone();
                } else {
                    let k = t[0].0.clone();
                    t[1 + prog.usize_below(2)].0 = k;
                }
            }
            t
        },
        nested_arg: n_tags == 0 && prog.chance(1, 4),
    }
}

impl Engine for E7 {
    type Case = McCase;
    const NAME: &'static str = "macroproc";
    const ID: u64 = 7;

    fn real_vs_stub() -> serde_json::Value {
        serde_json::json!({
            "real": ["all seven statsd_* macros and _generate_impl (cadence-macros/src/macros.rs)", "set_global_default / get_global_default / is_global_default_set on the real process-global HOLDER (one fresh process per case)", "StatsdClient, MetricBuilder::send"],
            "stub": ["the sinks of the global client and of the twin client (scripted: refuse the i-th emit)"],
            "note": "the sequential phase involves no scheduler; the concurrent phase (half of the cases) runs 2-3 simulated threads under the dsim kernel inside the child; the history dimension is {unset, set, second set, concurrent use, late set} x fault script; argument forms are a compiled-in matrix (22 macro/value-type combinations x 0..3 tags) with runtime-chosen strings and values"
        })
    }

    fn nontrivial_rule() -> &'static str {
        "one case = one fresh child process running {macro invocations while unset, set_global_default(A), optional second set (ignored), sequence of macro invocations from the 22 x 4 matrix} with client configuration and a per-emit refusal script; distinct = distinct hash of the serialised case; non-trivial = at least 2 macro invocations and, when the script refuses emits, at least one refusal reached"
    }

    fn is_fault_case(c: &McCase) -> bool {
        c.refuse.iter().any(|r| *r)
    }

    fn required_probes(_focus: &str) -> &'static [&'static str] {
        &["panicked_while_unset", "second_set", "sink_refused_via_macro", "invalid_value_via_macro", "nested_macro_in_argument", "reentrant_handler_ran", "concurrent_phase_ran", "two_macro_users_in_sink", "two_macro_users_in_handler", "concurrent_refusal", "late_set_during_macros"]
    }

    fn generate(rng: &mut Rng, _focus: &str, _tier: Tier) -> McCase {
        let mut cfg = rng.split(1);
        let mut prog = rng.split(2);
        let mut flt = rng.split(3);
        let prefix = match cfg.below(3) {
            0 => String::new(),
            1 => "svc".into(),
            _ => hstr(&mut cfg, 6),
        };
        let mut default_tags = Vec::new();
        for _ in 0..cfg.usize_below(3) {
            default_tags.push((if cfg.chance(1, 2) { Some(hstr(&mut cfg, 3)) } else { None }, hstr(&mut cfg, 3)));
        }
        let n = 1 + prog.usize_below(14);
        let mut invocations = Vec::new();
        for _ in 0..n {
            invocations.push(gen_inv(&mut prog, &default_tags));
        }
        let rate = *flt.pick(&[0u64, 20, 50, 100]);
        let refuse = (0..n).map(|_| flt.chance(rate, 100)).collect();
        let pre_unset = (0..cfg.usize_below(4)).map(|_| cfg.below(7) as u8).collect();
        let handler = cfg.chance(3, 4);
        let reentrant_handler = handler && cfg.chance(1, 3);
        // nested emits consume answers of the refusal script too: make it long enough
        let refuse: Vec<bool> = {
            let mut r: Vec<bool> = refuse;
            let extra = 3 * n + 4;
            for _ in 0..extra {
                r.push(flt.chance(rate, 100));
            }
            r
        };
        let set_global = cfg.chance(19, 20);
        let mut conc = rng.split(5);
        let mut concurrent = Vec::new();
        if set_global && conc.chance(1, 2) {
            for _ in 0..(2 + conc.usize_below(2)) {
                let m = 1 + conc.usize_below(4);
                concurrent.push((0..m).map(|_| gen_inv(&mut conc, &default_tags)).collect());
            }
        }
        let conc_sched = if concurrent.is_empty() { None } else { Some(SchedSpec::generate(&mut conc, &[45, 30, 25, 0, 0])) };
        McCase {
            prefix,
            default_tags,
            handler,
            refuse,
            pre_unset,
            set_global,
            second_set: cfg.chance(1, 2),
            invocations,
            reentrant_handler,
            concurrent,
            conc_sched,
            conc_yields: conc.below(3) as u8,
            conc_refuse_mod: *conc.pick(&[0u8, 1, 2, 3]),
            conc_late_set: conc.chance(1, 2),
        }
    }

    fn execute(case: &McCase, want_trace: bool) -> Outcome {
        let mut out = Outcome::default();
        out.strategy = "process_per_case";
        let exe = match std::env::current_exe() {
            Ok(e) => e,
            Err(e) => {
                out.harness_error = Some(format!("current_exe: {e}"));
                return out;
            }
        };
        let arg = serde_json::to_string(case).unwrap();
        let o = std::process::Command::new(exe).arg("macro-child").arg(&arg).output();
        let o = match o {
            Ok(o) => o,
            Err(e) => {
                out.harness_error = Some(format!("cannot spawn child: {e}"));
                return out;
            }
        };
        let stdout = String::from_utf8_lossy(&o.stdout);
        let line = stdout.lines().find(|l| l.starts_with("CHILD-REPORT ")).map(|l| &l[13..]);
        let rep: ChildReport = match line.and_then(|l| serde_json::from_str(l).ok()) {
            Some(r) => r,
            None => {
                // the child died (abort / double panic): that is a C17/C20 violation only if a
                // macro caused it; report as harness error with the evidence
                out.harness_error = Some(format!("child produced no report (status {:?}): {}", o.status.code(), String::from_utf8_lossy(&o.stderr).chars().take(300).collect::<String>()));
                return out;
            }
        };
        out.api_calls = rep.calls as u64;
        out.steps = rep.steps;
        if !rep.schedule.is_empty() {
            out.strategy = case.conc_sched.as_ref().map(|s| s.name()).unwrap_or("process_per_case");
            out.schedule_hash = hash_schedule(&rep.schedule);
            out.schedule = rep.schedule.clone();
        }
        for (c, d) in &rep.violations {
            if c == "macro.harness" {
                out.harness_error = Some(d.clone());
            } else if c == "macro.panicked-while-set" {
                out.violate(&["C17", "C20"], c, d.clone());
            } else if c == "macro.late-set-panicked" {
                // "later sets are ignored and never disturb it" is C18's
                out.violate(&["C17", "C18", "C20"], c, d.clone());
            } else {
                out.violate(&["C17"], c, d.clone());
            }
        }
        for p in &rep.probes {
            let name: &'static str = match p.as_str() {
                "panicked_while_unset" => "panicked_while_unset",
                "second_set" => "second_set",
                "sink_refused_via_macro" => "sink_refused_via_macro",
                "invalid_value_via_macro" => "invalid_value_via_macro",
                "nested_macro_in_argument" => "nested_macro_in_argument",
                "reentrant_handler_ran" => "reentrant_handler_ran",
                "concurrent_phase_ran" => "concurrent_phase_ran",
                "two_macro_users_in_sink" => "two_macro_users_in_sink",
                "two_macro_users_in_handler" => "two_macro_users_in_handler",
                "concurrent_refusal" => "concurrent_refusal",
                "late_set_during_macros" => "late_set_during_macros",
                _ => "other",
            };
            out.probe(name);
        }
        for r in case.refuse.iter().filter(|r| **r) {
            let _ = r;
            out.configured("sink_refusal");
        }
        for _ in 0..rep.refused {
            out.fired("sink_refusal");
        }
        let mut h = Fnv::default();
        for t in &rep.trace {
            h.bytes(t.as_bytes());
            out.state_hashes.push(h.0);
        }
        h.u64(rep.violations.len() as u64);
        out.trace_hash = h.0;
        if want_trace {
            out.trace = rep.trace.clone();
        }
        out
    }

    fn pin_schedule(case: &McCase, o: &Outcome) -> McCase {
        let mut c = case.clone();
        if let (Some(s), false) = (c.conc_sched.as_mut(), o.schedule.is_empty()) {
            s.explicit = Some(o.schedule.clone());
        }
        c
    }

    fn shrink(case: &McCase) -> Vec<McCase> {
        let mut v = Vec::new();
        if !case.concurrent.is_empty() {
            let mut c = case.clone();
            c.concurrent.clear();
            c.conc_sched = None;
            v.push(c);
            for t in (1..case.concurrent.len()).rev() {
                if case.concurrent.len() > 2 {
                    let mut c = case.clone();
                    c.concurrent.remove(t);
                    v.push(c);
                }
            }
            for t in 0..case.concurrent.len() {
                for i in 0..case.concurrent[t].len() {
                    let mut c = case.clone();
                    c.concurrent[t].remove(i);
                    v.push(c);
                }
            }
            if case.conc_yields > 0 {
                let mut c = case.clone();
                c.conc_yields -= 1;
                v.push(c);
            }
            if case.conc_late_set {
                let mut c = case.clone();
                c.conc_late_set = false;
                v.push(c);
            }
            if let Some(s) = &case.conc_sched {
                for s2 in s.shrink() {
                    let mut c = case.clone();
                    c.conc_sched = Some(s2);
                    v.push(c);
                }
            }
        }
        for i in 0..case.invocations.len() {
            let mut c = case.clone();
            c.invocations.remove(i);
            if c.refuse.len() > i {
                c.refuse.remove(i);
            }
            v.push(c);
        }
        if !case.pre_unset.is_empty() {
            let mut c = case.clone();
            c.pre_unset.pop();
            v.push(c);
        }
        if case.second_set {
            let mut c = case.clone();
            c.second_set = false;
            v.push(c);
        }
        if case.reentrant_handler {
            let mut c = case.clone();
            c.reentrant_handler = false;
            v.push(c);
        }
        for i in 0..case.invocations.len() {
            if case.invocations[i].nested_arg {
                let mut c = case.clone();
                c.invocations[i].nested_arg = false;
                v.push(c);
            }
        }
        if !case.default_tags.is_empty() {
            let mut c = case.clone();
            c.default_tags.clear();
            v.push(c);
        }
        if case.refuse.iter().any(|r| *r) {
            let mut c = case.clone();
            c.refuse.iter_mut().for_each(|r| *r = false);
            v.push(c);
        }
        for i in 0..case.invocations.len() {
            if case.invocations[i].n_tags > 0 {
                let mut c = case.clone();
                c.invocations[i].n_tags -= 1;
                v.push(c);
            }
        }
        v
    }
}
